#!/usr/bin/env python3
"""C17: every feature combination builds and behaves the same.

Configuration sweep: the same seeded transcript (cfgprobe) is rebuilt and replayed under feature
subsets of hpke x guard on/off; digests per KEM must equal those of the all-features build; the
in-place API must always be present, the allocating API exactly when alloc|std is enabled; the crate's
own tests must pass per subset; examples and bench must build; with the guard off the hooks must not
exist and the 35-test baseline must be green.

usage: run.py quick|thorough | --replay <file>
exit 0 held / 1 VIOLATION / 2 harness error
"""
import itertools, json, os, re, subprocess, sys, time
from concurrent.futures import ThreadPoolExecutor

HERE = "/verif/c17"
PROBE = HERE + "/cfgprobe"
TARGET = HERE + "/target"
FEATURES = ["alloc", "std", "x25519", "p256", "p384", "p521"]
ENV = dict(os.environ, CARGO_NET_OFFLINE="true")
SEED = int(os.environ.get("VERIF_SEED", "1"))

def sh(cmd, cwd, env=None, timeout=3600):
    p = subprocess.run(cmd, shell=True, cwd=cwd, env=env or ENV, capture_output=True, text=True, timeout=timeout)
    return p.returncode, p.stdout, p.stderr

def all_subsets():
    out = []
    for r in range(len(FEATURES) + 1):
        for c in itertools.combinations(FEATURES, r):
            out.append(list(c))
    return out

def quick_subsets():
    s = [[], ["alloc"], ["std"], ["x25519"], ["p256"], ["p384"], ["p521"],
         ["alloc", "p256", "x25519"], FEATURES[:],
         ["std", "x25519"], ["std", "p256"], ["std", "p384"], ["std", "p521"],
         ["alloc", "p384"], ["alloc", "p521"], ["x25519", "p521"], ["p256", "p384"]]
    for f in FEATURES:
        s.append([g for g in FEATURES if g != f])
    uniq = []
    for x in s:
        x = sorted(x, key=FEATURES.index)
        if x not in uniq: uniq.append(x)
    return uniq

def envfor(guard, lane):
    e = dict(ENV)
    e["CARGO_TARGET_DIR"] = f"{TARGET}/lane{lane}-{'on' if guard else 'off'}"
    if guard:
        e["RUSTFLAGS"] = "--cfg hpke_verif"
    else:
        e.pop("RUSTFLAGS", None)
    return e

def fstr(feats, extra=()):
    return ",".join(list(feats) + list(extra))

class Violation(Exception):
    def __init__(self, step, feats, guard, cmd, expected, observed):
        self.d = dict(engine="c17", property="C17", step=step, features=feats, guard=guard, cmd=cmd, expected=expected, observed=observed[-3000:])

def parse_digests(out):
    d = {}
    for line in out.splitlines():
        m = re.match(r"(KEM(?:-ALLOC)?) (\S+) ([0-9a-f]{64})$", line)
        if m: d[(m.group(1), m.group(2))] = m.group(3)
    return d, ("DONE" in out)

def probe(feats, guard, lane, ref):
    """build + run + API presence for one subset; returns dict of counters"""
    e = envfor(guard, lane)
    has_alloc = ("alloc" in feats) or ("std" in feats)
    extra = ["need_inplace_api"] + (["need_alloc_api"] if has_alloc else [])
    fs = fstr(feats, extra)
    cmd = f"cargo build --offline --no-default-features --features '{fs}'" if fs else "cargo build --offline --no-default-features"
    rc, out, err = sh(cmd, PROBE, e)
    if rc != 0:
        if "error: no matching package" in err or "failed to select a version" in err or "Blocking waiting" in err and False:
            raise RuntimeError("cargo cannot run: " + err[-500:])
        raise Violation("build", feats, guard, cmd, "the library and a user of its in-place" + (" and allocating" if has_alloc else "") + " API compile under this feature set", err)
    rc, out, err = sh(e["CARGO_TARGET_DIR"] + "/debug/cfgprobe", PROBE, e)
    if rc != 0:
        raise Violation("transcript-run", feats, guard, cmd + " && run", "transcript completes", out + err)
    d, done = parse_digests(out)
    if not done:
        raise Violation("transcript-run", feats, guard, cmd + " && run", "transcript completes", out + err)
    kems = [k for k in ("x25519", "p256", "p384", "p521") if k in feats]
    for k in kems:
        if ("KEM", k) not in d:
            raise Violation("transcript", feats, guard, cmd + " && run", f"a transcript for enabled KEM {k}", out)
        if ref is not None and d[("KEM", k)] != ref[("KEM", k)]:
            words = "; ".join(l for l in out.splitlines() if l.split(" ")[0] in ("WIPE", "ZERO-X", "EXPORT-ONLY", "RNG-STREAM", "NEG", "NEG-ALLOC") and f" {k} " in l)
            raise Violation("transcript", feats, guard, cmd + " && run", f"KEM {k} digest {ref[('KEM', k)]} (as under the full feature set, guard on)", d[("KEM", k)] + " | readable parts of this transcript: " + words)
        if has_alloc:
            if ("KEM-ALLOC", k) not in d:
                raise Violation("transcript", feats, guard, cmd + " && run", f"allocating-API transcript for {k}", out)
            if ref is not None and d[("KEM-ALLOC", k)] != ref[("KEM-ALLOC", k)]:
                raise Violation("transcript", feats, guard, cmd + " && run", f"KEM-ALLOC {k} digest {ref[('KEM-ALLOC', k)]}", d[("KEM-ALLOC", k)])
    counters = dict(builds=1, transcripts=len(kems))
    # the allocating API must be absent without alloc|std
    if not has_alloc and any(k in feats for k in ("x25519", "p256", "p384", "p521")):
        fs2 = fstr(feats, ["need_alloc_api"])
        cmd2 = f"cargo build --offline --no-default-features --features '{fs2}'"
        rc, out, err = sh(cmd2, PROBE, e)
        counters["negative_builds"] = 1
        if rc == 0:
            raise Violation("alloc-api-absent", feats, guard, cmd2, "seal/open/single_shot_seal/single_shot_open do not exist without alloc|std (build fails)", "build succeeded")
        if "single_shot_seal" not in err and "no function or associated item named `seal`" not in err and "cannot find" not in err:
            raise RuntimeError("negative build failed for an unexpected reason: " + err[-800:])
    return d, counters

def repo_tests(feats, lane):
    e = dict(ENV)
    e["CARGO_TARGET_DIR"] = f"{TARGET}/repo-test{lane}"
    e.pop("RUSTFLAGS", None)
    fs = fstr(feats)
    cmd = f"cargo test --offline --lib --no-default-features --features '{fs}' -- --skip kat_test" if fs else "cargo test --offline --lib --no-default-features -- --skip kat_test"
    rc, out, err = sh(cmd, "/repo", e)
    m = re.search(r"test result: (\w+)\. (\d+) passed; (\d+) failed", out)
    if rc != 0 or not m or m.group(1) != "ok":
        raise Violation("self-tests", feats, False, cmd, "the crate's own tests pass under this feature set", (out + err))
    return int(m.group(2))

def guard_off_checks(lane):
    # 1. hooks do not exist with the guard off
    e = envfor(False, lane)
    cmd = "cargo build --offline --no-default-features --features 'alloc,x25519,need_verif_api'"
    rc, out, err = sh(cmd, PROBE, e)
    if rc == 0:
        raise Violation("guard-off", ["alloc", "x25519"], False, cmd, "hpke::verif does not exist with the guard off (build fails)", "build succeeded")
    # 2. the pinned baseline is green
    e2 = dict(ENV); e2.pop("RUSTFLAGS", None)
    e2["CARGO_TARGET_DIR"] = f"{TARGET}/repo-base"
    cmd = "cargo test --workspace --no-fail-fast --offline"
    rc, out, err = sh(cmd, "/repo", e2)
    passed = sum(int(x) for x in re.findall(r"test result: ok\. (\d+) passed", out))
    failed = re.findall(r"test result: FAILED", out)
    if rc != 0 or failed or passed < 35:
        raise Violation("guard-off-baseline", ["default"], False, cmd, "35 baseline tests pass with the guard off", (out + err))
    return passed

def examples_and_bench(thorough, lane):
    e = dict(ENV); e.pop("RUSTFLAGS", None)
    e["CARGO_TARGET_DIR"] = f"{TARGET}/repo-base"
    cmds = ["cargo check --offline --examples --features 'x25519,p256,p384,p521'", "cargo check --offline --example client_server"]
    if thorough:
        cmds.append("cargo check --offline --benches --features 'x25519,p256,p384,p521'")
        cmds.append("cargo check --offline --benches")
    for cmd in cmds:
        rc, out, err = sh(cmd, "/repo", e)
        if rc != 0:
            raise Violation("examples-bench", ["x25519", "p256", "p384", "p521"], False, cmd, "bundled example/benchmark targets build under their required features", err)
    return len(cmds)

def write_evidence(tier, wall, violations, cov, samples, replay=""):
    ev = {
        "property_id": "C17", "tier": tier, "seed": SEED, "level": "other", "wall_s": wall, "violations": violations, "replay": replay,
        "assumptions": ["cargo/rustc are trusted", "kat_tests::kat_test is skipped: its vector file is empty in this tree and it is not in the pinned baseline",
                        "quick covers a fixed covering family of feature subsets; thorough enumerates all 64 x guard on/off"],
        "coverage": {
            "explanation": "Exhaustive configuration sweep, not schedule search: builds are the vehicle, the deciding comparison is that the same seeded transcript (derive, setup in 4 modes with a deterministic RNG, seal/open in place, export, export-only, plus the allocating calls when alloc|std is on) gives byte-identical digests under every feature subset as under the full feature set; plus API presence/absence by compiling users of the API, the crate's own tests per subset, example/bench builds, and guard-off absence of the hooks with the pinned baseline green.",
            "evaluations": cov.get("builds", 0) + cov.get("negative_builds", 0) + cov.get("test_runs", 0),
            "distinct_nontrivial": cov.get("subsets", 0),
            "rule": "one evaluation = one cargo build/test/run of a (feature subset, guard) configuration; distinct = distinct (subset, guard) pairs whose transcript was compared",
            "samples": samples[:6],
            "exhaustive": tier == "thorough",
            "counters": cov,
        },
    }
    os.makedirs("/verif/evidence", exist_ok=True)
    json.dump(ev, open("/verif/evidence/C17.json", "w"), indent=1)

def run(tier):
    t0 = time.time()
    thorough = tier == "thorough"
    subsets = all_subsets() if thorough else quick_subsets()
    configs = [(s, True) for s in subsets]
    if thorough:
        configs += [(s, False) for s in subsets]
    else:
        configs += [(s, False) for s in ([], ["alloc", "p256", "x25519"], FEATURES[:])]
    cov = dict(subsets=0, builds=0, transcripts=0, negative_builds=0, test_runs=0, tests_passed=0)
    samples = []
    print(f"c17: tier={tier} configurations={len(configs)}")
    try:
        ref, c = probe(FEATURES[:], True, 0, None)
        for k, v in c.items(): cov[k] = cov.get(k, 0) + v
        lanes = 4
        def work(i_cfg):
            i, (s, g) = i_cfg
            return (s, g) + probe(s, g, i % lanes, ref)
        # lanes run in parallel, each with its own target directory; results are consumed in order
        buckets = [[(i, c) for i, c in enumerate(configs) if i % lanes == l] for l in range(lanes)]
        def lane_run(b):
            out = []
            for ic in b:
                try:
                    out.append(("ok", ic[0], work(ic)))
                except Violation as v:
                    out.append(("viol", ic[0], v)); break
                except Exception as ex:
                    out.append(("err", ic[0], ex)); break
            return out
        with ThreadPoolExecutor(max_workers=lanes) as ex:
            results = [r for rs in ex.map(lane_run, buckets) for r in rs]
        results.sort(key=lambda r: r[1])
        for kind, i, payload in results:
            if kind == "viol": raise payload
            if kind == "err": raise payload
            s, g, d, c = payload
            cov["subsets"] += 1
            for k, v in c.items(): cov[k] = cov.get(k, 0) + v
            if len(samples) < 6:
                samples.append({"features": s, "guard": g, "digests": {f"{a} {b}": v[:16] for (a, b), v in d.items()}})
        # the crate's own tests per subset (guard off)
        tsubs = subsets if thorough else [["p384", "p521", "alloc"], ["x25519"], ["std", "p256"]]
        def trun(i_s):
            i, s = i_s
            try: return ("ok", i, repo_tests(s, i % 3))
            except Violation as v: return ("viol", i, v)
        tb = [[(i, s) for i, s in enumerate(tsubs) if i % 3 == l] for l in range(3)]
        with ThreadPoolExecutor(max_workers=3) as ex:
            tres = [r for rs in ex.map(lambda b: [trun(x) for x in b], tb) for r in rs]
        tres.sort(key=lambda r: r[1])
        for kind, i, payload in tres:
            if kind == "viol": raise payload
            cov["test_runs"] += 1; cov["tests_passed"] += payload
        cov["example_bench_builds"] = examples_and_bench(thorough, 0)
        cov["baseline_tests_guard_off"] = guard_off_checks(0)
    except Violation as v:
        os.makedirs("/verif/replays/C17", exist_ok=True)
        path = f"/verif/replays/C17/{v.d['step']}-{'_'.join(v.d['features']) or 'none'}-{'on' if v.d['guard'] else 'off'}.json"
        json.dump(v.d, open(path, "w"), indent=1)
        print(f"violation: step={v.d['step']} features={v.d['features']} guard={'on' if v.d['guard'] else 'off'}")
        print("  cmd:", v.d["cmd"]); print("  expected:", v.d["expected"]); print("  observed:", v.d["observed"][-1500:])
        print(f"VIOLATION property=C17 replay={path}")
        write_evidence(tier, time.time() - t0, 1, cov, samples or [{"features": v.d["features"]}], path)
        return 1
    except Exception as ex:
        print("HARNESS ERROR:", repr(ex)[:2000])
        return 2
    write_evidence(tier, time.time() - t0, 0, cov, samples)
    print(f"c17: {cov} wall={time.time() - t0:.0f}s")
    print("OK property=C17 held on everything explored")
    return 0

def replay(path):
    d = json.load(open(path))
    feats, guard, step = d["features"], d["guard"], d["step"]
    try:
        if step in ("build", "transcript", "transcript-run", "alloc-api-absent"):
            ref = None
            if step == "transcript":
                ref, _ = probe(FEATURES[:], True, 0, None)
            probe(feats, guard, 0, ref)
        elif step == "self-tests":
            repo_tests(feats, 0)
        elif step in ("guard-off", "guard-off-baseline"):
            guard_off_checks(0)
        elif step == "examples-bench":
            examples_and_bench(True, 0)
    except Violation as v:
        print(f"replayed: step={v.d['step']} features={v.d['features']}"); print("  observed:", v.d["observed"][-1000:])
        print(f"VIOLATION property=C17 replay={path}")
        return 1
    print("replay did not reproduce a violation")
    return 0

if __name__ == "__main__":
    if len(sys.argv) >= 3 and sys.argv[1] == "--replay":
        sys.exit(replay(sys.argv[2]))
    sys.exit(run(sys.argv[1] if len(sys.argv) > 1 else "quick"))
