#!/bin/bash
exec python3 /verif/c17/run.py "$@"
