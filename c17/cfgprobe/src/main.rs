//! C17 transcript probe. Built once per feature subset of hpke (features forward 1:1). For every
//! enabled KEM it runs a fixed seeded transcript (derive, setup in 4 modes with a deterministic
//! RNG, seal/open in place, export; plus the allocating calls when alloc|std is on) and prints a
//! digest. The digests must not depend on which other features are enabled.
#![allow(unused_imports, dead_code, unused_macros)]

use hpke::rand_core::{CryptoRng, RngCore};
use hpke::{Deserializable, Serializable};
use sha2::{Digest, Sha256};

struct DetRng(u64);
impl RngCore for DetRng {
    fn next_u32(&mut self) -> u32 {
        self.next_u64() as u32
    }
    fn next_u64(&mut self) -> u64 {
        self.0 = self.0.wrapping_add(0x9E37_79B9_7F4A_7C15);
        let mut z = self.0;
        z = (z ^ (z >> 30)).wrapping_mul(0xBF58_476D_1CE4_E5B9);
        z = (z ^ (z >> 27)).wrapping_mul(0x94D0_49BB_1331_11EB);
        z ^ (z >> 31)
    }
    fn fill_bytes(&mut self, dst: &mut [u8]) {
        for c in dst.chunks_mut(8) {
            let v = self.next_u64().to_le_bytes();
            c.copy_from_slice(&v[..c.len()]);
        }
    }
}
impl CryptoRng for DetRng {}

fn unhex(s: &str) -> Vec<u8> {
    (0..s.len() / 2).map(|i| u8::from_str_radix(&s[2 * i..2 * i + 2], 16).unwrap()).collect()
}

/// constants computed by `hpke-sim zerox` (recipient ikm "cfgprobe zero-x recipient")
fn zero_x_enc(kem: &str) -> Option<&'static str> {
    match kem {
        "p256" => Some("041ed31734afa052c41b6e723b4b9c67e1719c9581f447ce70a4450ad802462924fac78982b3de8413830e59442a1d826797bd90d5d0a83f0e2bb316a55c358c2e"),
        "p384" => Some("04f97b05db228f742b5901b84ec6cfcacdafaeaceda6769a44e4d73bb902e0406cdded30d738cdec1cb23fe5980f447d2739cf2c80eff9b95540ba85877ad32f4f04a81e0f210cad291079375f9cb3bcc37a5251e2586387412ce12bcd18249215"),
        "p521" => Some("04007f0f183a07f53368212b0b0519126d4f4a4b89a89a54e623e73d454e02f1e26f2c39dce22c2a8fadc2d7e1dd2c75d30d2f7a9352157b4ab55ff15491738691d4030168ca8ab554c5f7e2317c50ecc9e53ddfd4ee86fa4cea45865b08e479648fc2209b780e9dbc1d8a0d44c0823a9e17d928f0b0ee138545f255f001b0749cea0460f9"),
        _ => None,
    }
}

/// constants computed by `hpke-sim zerox` (lines "WIPE ..."): receiver context of recipient ikm
/// "cfgprobe wipe recipient", enc = public key of ikm "cfgprobe wipe ephemeral", Base mode,
/// ChaCha20Poly1305, HKDF-SHA256, info "cfgprobe info": (enc, base_nonce, exporter_secret)
fn wipe_consts(kem: &str) -> (&'static str, &'static str, &'static str) {
    match kem {
        "x25519" => ("fe5f611613d486babd1722e1ffc1a4aa4e8e4b304c17a4f38aaea19bc6039e00", "717f372ecacbb681e64bce19", "43fc96562a7e4f8fd862b7da1235c65989806564c0d8540e38da262475ae1904"),
        "p256" => ("0415436cb224c8ea73c6c695d5730fa01966073b42763b3384d0d756fb3ccfbe6dc12fae7d0a6f820720e251cda198cf1f0eb70e821f57640830de1e5a07143e1d", "dc7da48509cacf6d78eb94f8", "59f18c238620decb1b1165400a7507da15ad6a6cf60be6f1626e6e0930fcba17"),
        "p384" => ("04b569cd7eee93f25363a2315fd7d5224e98281e11e2eb74fa72836f64c6bd2cc5a04e207573597ad502913579e3074274cc8983a42b4763573cfba908b8a3756027fc658423814d6fc8bc951ddb1c0691bdd501d0bd97010ad3f44e8b7282817b", "bb48db3c58f79f81bd1ce103", "268bad84432d6350e5239778d5610125cbdcd4e052efcf2d44cb8ffca152d9df"),
        _ => ("0400fc7e9e7024ec2bbfc42fb4f26d9d04bbfb391f0ae0b4779e2a198c2b653818bce4cceb364629e1a8e0c5d9250de0fbb5b4794864e5dd48a8b41888263a2922acfa0103cbda63e446416b970dfe658dc7baf3467114141c7ca50d75c3db54155e628ec71750a24eba06f0aa49c47105fe426f53b1ec12d41a9b363fcee6adfee0054020", "1fc8dd6666fcbabd404dcfdb", "3910c87551ef59743f50bee641c8a471db82b1f9710f152e18f1f7d70821dc3c"),
    }
}

/// Moves `v` into a slot owned by the probe, looks for the patterns, runs the destructor in place and
/// looks again (volatile reads). Word per pattern: "absent" (never in the value), "wiped", or
/// "SURVIVED" (every place that held it still holds it after the drop).
fn scan_drop<T>(v: T, pats: &[Vec<u8>]) -> Vec<&'static str> {
    let mut slot = core::mem::MaybeUninit::<T>::new(v);
    let n = core::mem::size_of::<T>();
    let p = slot.as_mut_ptr() as *const u8;
    let read = |p: *const u8| -> Vec<u8> { (0..n).map(|i| unsafe { core::ptr::read_volatile(p.add(i)) }).collect() };
    let before = read(p);
    unsafe { core::ptr::drop_in_place(slot.as_mut_ptr()) };
    let after = read(p);
    let locate = |hay: &[u8], q: &Vec<u8>| -> Vec<usize> {
        if q.is_empty() || hay.len() < q.len() {
            return vec![];
        }
        (0..hay.len() - q.len() + 1).filter(|i| &hay[*i..*i + q.len()] == &q[..]).collect()
    };
    pats.iter()
        .map(|q| {
            let b = locate(&before, q);
            let a = locate(&after, q);
            if b.is_empty() {
                "absent"
            } else if b.iter().all(|o| a.contains(o)) {
                "SURVIVED"
            } else {
                "wiped"
            }
        })
        .collect()
}

// ------------------------------------------------------------------------------------------------
// Heap side of the wipe probe: the probe's allocator looks at a block at the moment it is freed.
// A boxed value is dropped and freed in one go, so a wipe written as plain stores (not volatile) is a
// dead store in front of the deallocation and an optimising build may delete it; the in-place scan
// above cannot see that, because its own reads keep the stores alive.
mod heapwatch {
    use std::ffi::c_void;
    use std::sync::atomic::{AtomicBool, AtomicUsize, Ordering};
    static ARMED: AtomicBool = AtomicBool::new(false);
    static HIT: AtomicBool = AtomicBool::new(false);
    static LEN: AtomicUsize = AtomicUsize::new(0);
    static mut PAT: [u8; 96] = [0; 96];
    extern "C" {
        fn __libc_free(p: *mut c_void);
        fn malloc_usable_size(p: *mut c_void) -> usize;
    }
    /// Interposes the C library's `free`, which Rust's default allocator calls (glibc): the block is
    /// inspected at the moment it is handed back, then really freed. The default allocator is kept on
    /// purpose: the optimiser knows what a deallocation is and may delete plain stores in front of it.
    #[no_mangle]
    pub unsafe extern "C" fn free(p: *mut c_void) {
        if !p.is_null() && ARMED.load(Ordering::SeqCst) {
            let n = LEN.load(Ordering::SeqCst);
            let have = malloc_usable_size(p);
            if n > 0 && have >= n {
                let hay = std::slice::from_raw_parts(p as *const u8, have);
                let pat = &*std::ptr::addr_of!(PAT);
                let mut i = 0;
                while i + n <= have {
                    if hay[i..i + n] == pat[..n] {
                        HIT.store(true, Ordering::SeqCst);
                        break;
                    }
                    i += 1;
                }
            }
        }
        __libc_free(p)
    }
    /// Boxes `v`, drops the box with the watch armed for `pat`; true if a freed block held `pat`
    pub fn boxed_drop_leaks<T>(v: T, pat: &[u8]) -> bool {
        let b = std::hint::black_box(Box::new(v));
        unsafe {
            let p = &mut *std::ptr::addr_of_mut!(PAT);
            p[..pat.len()].copy_from_slice(pat);
        }
        LEN.store(pat.len(), Ordering::SeqCst);
        HIT.store(false, Ordering::SeqCst);
        ARMED.store(true, Ordering::SeqCst);
        drop(b);
        ARMED.store(false, Ordering::SeqCst);
        HIT.load(Ordering::SeqCst)
    }
}

fn hexs(b: &[u8]) -> String {
    b.iter().map(|x| format!("{:02x}", x)).collect()
}

macro_rules! transcript {
    ($name:expr, $kem:ty) => {{
        use hpke::aead::{AeadTag, AesGcm128, AesGcm256, ChaCha20Poly1305, ExportOnlyAead};
        use hpke::kdf::{HkdfSha256, HkdfSha384, HkdfSha512};
        use hpke::{Kem as KemTrait, OpModeR, OpModeS, PskBundle};
        type Kem = $kem;
        let mut h = Sha256::new();
        let mut ha = Sha256::new();
        let (sk_r, pk_r) = <Kem as KemTrait>::derive_keypair(b"cfgprobe recipient ikm");
        let (sk_s, pk_s) = <Kem as KemTrait>::derive_keypair(b"cfgprobe sender ikm");
        h.update(sk_r.to_bytes());
        h.update(pk_r.to_bytes());
        h.update(pk_s.to_bytes());
        let psk = PskBundle::new(b"cfgprobe psk bytes", b"cfgprobe psk id").unwrap();
        let info = b"cfgprobe info";
        macro_rules! one {
            ($A:ty, $K:ty, $ms:expr, $mr:expr, $seed:expr) => {{
                let mut rng = DetRng($seed);
                let (enc, mut s) = hpke::setup_sender::<$A, $K, Kem, _>(&$ms, &pk_r, info, &mut rng).unwrap();
                h.update(enc.to_bytes());
                let enc2 = <Kem as KemTrait>::EncappedKey::from_bytes(&enc.to_bytes()).unwrap();
                let mut r = hpke::setup_receiver::<$A, $K, Kem>(&$mr, &sk_r, &enc2, info).unwrap();
                for i in 0..3u8 {
                    let mut buf = [i; 37];
                    let tag = s.seal_in_place_detached(&mut buf, &[i, 1, 2]).unwrap();
                    h.update(buf);
                    h.update(tag.to_bytes());
                    let tag2 = AeadTag::<$A>::from_bytes(&tag.to_bytes()).unwrap();
                    r.open_in_place_detached(&mut buf, &[i, 1, 2], &tag2).unwrap();
                    assert_eq!(buf, [i; 37]);
                }
                let mut e1 = [0u8; 40];
                let mut e2 = [0u8; 40];
                s.export(b"exp ctx", &mut e1).unwrap();
                r.export(b"exp ctx", &mut e2).unwrap();
                assert_eq!(e1, e2);
                h.update(e1);
                // in-place single shot
                let mut rng = DetRng($seed + 1);
                let mut buf = [7u8; 20];
                let (enc, tag) = hpke::single_shot_seal_in_place_detached::<$A, $K, Kem, _>(&$ms, &pk_r, info, &mut buf, b"aad", &mut rng).unwrap();
                h.update(enc.to_bytes());
                h.update(buf);
                h.update(tag.to_bytes());
                hpke::single_shot_open_in_place_detached::<$A, $K, Kem>(&$mr, &sk_r, &enc, info, &mut buf, b"aad", &tag).unwrap();
                assert_eq!(buf, [7u8; 20]);
                #[cfg(any(feature = "alloc", feature = "std"))]
                {
                    let mut rng = DetRng($seed + 2);
                    let (enc, mut s) = hpke::setup_sender::<$A, $K, Kem, _>(&$ms, &pk_r, info, &mut rng).unwrap();
                    let mut r = hpke::setup_receiver::<$A, $K, Kem>(&$mr, &sk_r, &enc, info).unwrap();
                    let ct = s.seal(b"allocating path", b"aad").unwrap();
                    ha.update(&ct);
                    assert_eq!(r.open(&ct, b"aad").unwrap(), b"allocating path");
                    let mut rng = DetRng($seed + 3);
                    let (enc, ct) = hpke::single_shot_seal::<$A, $K, Kem, _>(&$ms, &pk_r, info, b"single shot", b"aad", &mut rng).unwrap();
                    ha.update(enc.to_bytes());
                    ha.update(&ct);
                    assert_eq!(hpke::single_shot_open::<$A, $K, Kem>(&$mr, &sk_r, &enc, info, &ct, b"aad").unwrap(), b"single shot");
                }
            }};
        }
        one!(AesGcm128, HkdfSha256, OpModeS::<Kem>::Base, OpModeR::<Kem>::Base, 11);
        one!(AesGcm256, HkdfSha384, OpModeS::<Kem>::Psk(psk), OpModeR::<Kem>::Psk(psk), 22);
        one!(ChaCha20Poly1305, HkdfSha512, OpModeS::<Kem>::Auth((sk_s.clone(), pk_s.clone())), OpModeR::<Kem>::Auth(pk_s.clone()), 33);
        one!(ChaCha20Poly1305, HkdfSha256, OpModeS::<Kem>::AuthPsk((sk_s.clone(), pk_s.clone()), psk), OpModeR::<Kem>::AuthPsk(pk_s.clone(), psk), 44);
        // export-only
        {
            let mut rng = DetRng(55);
            let (enc, s) = hpke::setup_sender::<ExportOnlyAead, HkdfSha256, Kem, _>(&OpModeS::<Kem>::Base, &pk_r, info, &mut rng).unwrap();
            let r = hpke::setup_receiver::<ExportOnlyAead, HkdfSha256, Kem>(&OpModeR::<Kem>::Base, &sk_r, &enc, info).unwrap();
            let mut e1 = [0u8; 32];
            let mut e2 = [0u8; 32];
            s.export(b"", &mut e1).unwrap();
            r.export(b"", &mut e2).unwrap();
            assert_eq!(e1, e2);
            h.update(e1);
            // sealing / opening with an export-only context panics instead of producing output,
            // under every feature set
            let (_enc, mut s2) = hpke::setup_sender::<ExportOnlyAead, HkdfSha256, Kem, _>(&OpModeS::<Kem>::Base, &pk_r, info, &mut DetRng(56)).unwrap();
            let mut r2 = hpke::setup_receiver::<ExportOnlyAead, HkdfSha256, Kem>(&OpModeR::<Kem>::Base, &sk_r, &enc, info).unwrap();
            let sealed = std::panic::catch_unwind(std::panic::AssertUnwindSafe(|| {
                let mut b = [1u8; 8];
                s2.seal_in_place_detached(&mut b, b"aad").map(|_| ())
            }));
            let opened = std::panic::catch_unwind(std::panic::AssertUnwindSafe(|| {
                let mut b = [1u8; 8];
                let t = <AeadTag<ExportOnlyAead> as Default>::default();
                r2.open_in_place_detached(&mut b, b"aad", &t)
            }));
            let word = |r: &Result<Result<(), hpke::HpkeError>, Box<dyn std::any::Any + Send>>| match r {
                Err(_) => "panicked".to_string(),
                Ok(x) => format!("returned {:?}", x),
            };
            println!("EXPORT-ONLY {} seal {} / open {}", $name, word(&sealed), word(&opened));
            h.update(word(&sealed).as_bytes());
            h.update(word(&opened).as_bytes());
        }
        // edge-case valid key: an encapsulated key whose DH with this recipient has x-coordinate 0
        // (not the point at infinity): the receiver must be set up and export as everywhere else
        if let Some(enc_hex) = zero_x_enc($name) {
            let (sk_z, _) = <Kem as KemTrait>::derive_keypair(b"cfgprobe zero-x recipient");
            let enc_bytes = unhex(enc_hex);
            let word = match <Kem as KemTrait>::EncappedKey::from_bytes(&enc_bytes) {
                Err(e) => format!("enc rejected {:?}", e),
                Ok(enc_z) => match hpke::setup_receiver::<ChaCha20Poly1305, HkdfSha256, Kem>(&OpModeR::<Kem>::Base, &sk_z, &enc_z, info) {
                    Err(e) => format!("setup failed {:?}", e),
                    Ok(r) => {
                        let mut e = [0u8; 32];
                        r.export(b"zero-x", &mut e).unwrap();
                        format!("export {}", hexs(&e))
                    }
                },
            };
            println!("ZERO-X {} {}", $name, word);
            h.update(word.as_bytes());
        }
        // rejections are behaviour too: a tampered ciphertext, tag or aad, a wrong psk / psk_id / info
        // and a replay must be refused under every feature set exactly as under the full one
        {
            let mut words: Vec<String> = Vec::new();
            let mk = |seed: u64| {
                let mut rng = DetRng(seed);
                hpke::setup_sender::<ChaCha20Poly1305, HkdfSha256, Kem, _>(&OpModeS::<Kem>::Psk(psk), &pk_r, info, &mut rng).unwrap()
            };
            let (enc, mut s) = mk(66);
            let mut body = [9u8; 33];
            let tag = s.seal_in_place_detached(&mut body, b"aad").unwrap();
            let try_open = |m: &OpModeR<Kem>, inf: &[u8], body: &[u8], aad: &[u8], tagb: &[u8]| -> String {
                match hpke::setup_receiver::<ChaCha20Poly1305, HkdfSha256, Kem>(m, &sk_r, &enc, inf) {
                    Err(e) => format!("setup {:?}", e),
                    Ok(mut r) => {
                        let mut b = body.to_vec();
                        let t = AeadTag::<ChaCha20Poly1305>::from_bytes(tagb).unwrap();
                        let first = r.open_in_place_detached(&mut b, aad, &t);
                        // a second presentation of the same bytes (replay if the first succeeded)
                        let mut b2 = body.to_vec();
                        let second = r.open_in_place_detached(&mut b2, aad, &t);
                        format!("{:?}/{:?}", first.map(|_| "ok"), second.map(|_| "ok"))
                    }
                }
            };
            let good = OpModeR::<Kem>::Psk(psk);
            let tagb = tag.to_bytes();
            words.push(try_open(&good, info, &body, b"aad", &tagb));
            let mut b1 = body; b1[0] ^= 1;
            words.push(try_open(&good, info, &b1, b"aad", &tagb));
            let mut t1 = tagb.clone(); t1[15] ^= 0x80;
            words.push(try_open(&good, info, &body, b"aad", &t1));
            words.push(try_open(&good, info, &body, b"aae", &tagb));
            words.push(try_open(&good, b"cfgprobe infp", &body, b"aad", &tagb));
            let p2 = PskBundle::new(b"cfgprobe psk bytes", b"cfgprobe psk iD").unwrap();
            words.push(try_open(&OpModeR::<Kem>::Psk(p2), info, &body, b"aad", &tagb));
            let p3 = PskBundle::new(b"cfgprobe psk bytez", b"cfgprobe psk id").unwrap();
            words.push(try_open(&OpModeR::<Kem>::Psk(p3), info, &body, b"aad", &tagb));
            words.push(try_open(&OpModeR::<Kem>::Base, info, &body, b"aad", &tagb));
            #[cfg(any(feature = "alloc", feature = "std"))]
            {
                // the allocating interface on the same cases
                let (enc_a, mut s_a) = mk(67);
                let ct = s_a.seal(b"allocating negative", b"aad").unwrap();
                let open_a = |ct: &[u8], aad: &[u8]| -> String {
                    let mut r = hpke::setup_receiver::<ChaCha20Poly1305, HkdfSha256, Kem>(&OpModeR::<Kem>::Psk(psk), &sk_r, &enc_a, info).unwrap();
                    format!("{:?}", r.open(ct, aad).map(|v| v.len()))
                };
                let mut wa: Vec<String> = Vec::new();
                wa.push(open_a(&ct, b"aad"));
                let mut c1 = ct.clone(); c1[3] ^= 4;
                wa.push(open_a(&c1, b"aad"));
                let mut c2 = ct.clone(); let l = c2.len(); c2[l - 1] ^= 1;
                wa.push(open_a(&c2, b"aad"));
                wa.push(open_a(&ct, b""));
                wa.push(open_a(&ct[..ct.len() - 1], b"aad"));
                wa.push(format!("{:?}", hpke::single_shot_open::<ChaCha20Poly1305, HkdfSha256, Kem>(&OpModeR::<Kem>::Psk(psk), &sk_r, &enc_a, info, &c1, b"aad").map(|v| v.len())));
                let word = wa.join(" ");
                println!("NEG-ALLOC {} {}", $name, word);
                ha.update(word.as_bytes());
            }
            let word = words.join(" ");
            println!("NEG {} {}", $name, word);
            h.update(word.as_bytes());
        }
        // one RNG stream shared by consecutive operations: how much each of them draws is part of the
        // behaviour (the next operation's keys depend on it) and must not depend on which other
        // curves are compiled in
        {
            let mut rng = DetRng(99);
            let (_sk1, pk1) = <Kem as KemTrait>::gen_keypair(&mut rng);
            let (enc, _s) = hpke::setup_sender::<ChaCha20Poly1305, HkdfSha256, Kem, _>(&OpModeS::<Kem>::Base, &pk_r, info, &mut rng).unwrap();
            let (_sk2, pk2) = <Kem as KemTrait>::gen_keypair(&mut rng);
            let mut buf = [3u8; 5];
            let (enc2, _tag) = hpke::single_shot_seal_in_place_detached::<ChaCha20Poly1305, HkdfSha256, Kem, _>(&OpModeS::<Kem>::Base, &pk_r, info, &mut buf, b"", &mut rng).unwrap();
            let next = rng.next_u64();
            h.update(pk1.to_bytes());
            h.update(enc.to_bytes());
            h.update(pk2.to_bytes());
            h.update(enc2.to_bytes());
            let word = format!("stream position after keygen, setup, keygen, single-shot: next word {:016x}", next);
            println!("RNG-STREAM {} {}", $name, word);
            h.update(word.as_bytes());
        }
        // the wipes on drop are part of the crate's behaviour under every configuration (and must
        // not depend on the verification guard): receiver context and KEM shared secret
        {
            let (enc_hex, nonce_hex, exp_hex) = wipe_consts($name);
            let (sk_w, _) = <Kem as KemTrait>::derive_keypair(b"cfgprobe wipe recipient");
            let enc_w = <Kem as KemTrait>::EncappedKey::from_bytes(&unhex(enc_hex)).unwrap();
            let r = hpke::setup_receiver::<ChaCha20Poly1305, HkdfSha256, Kem>(&OpModeR::<Kem>::Base, &sk_w, &enc_w, info).unwrap();
            let words = scan_drop(r, &[unhex(nonce_hex), unhex(exp_hex)]);
            let (ss, _enc) = <Kem as KemTrait>::encap(&pk_r, None, &mut DetRng(77)).unwrap();
            let ss_bytes = ss.0.to_vec();
            let w2 = scan_drop(ss, &[ss_bytes]);
            // the same values boxed: dropped and freed in one go
            let r2 = hpke::setup_receiver::<ChaCha20Poly1305, HkdfSha256, Kem>(&OpModeR::<Kem>::Base, &sk_w, &enc_w, info).unwrap();
            let h1 = heapwatch::boxed_drop_leaks(r2, &unhex(exp_hex));
            let r3 = hpke::setup_receiver::<ChaCha20Poly1305, HkdfSha256, Kem>(&OpModeR::<Kem>::Base, &sk_w, &enc_w, info).unwrap();
            let h2 = heapwatch::boxed_drop_leaks(r3, &unhex(nonce_hex));
            let (ss3, _enc) = <Kem as KemTrait>::encap(&pk_r, None, &mut DetRng(77)).unwrap();
            let ss3_bytes = ss3.0.to_vec();
            let h3 = heapwatch::boxed_drop_leaks(ss3, &ss3_bytes);
            let hw = |b: bool| if b { "SURVIVED" } else { "wiped" };
            let word = format!("receiver context: base_nonce {} exporter_secret {}; shared_secret {}; boxed: base_nonce {} exporter_secret {} shared_secret {}", words[0], words[1], w2[0], hw(h2), hw(h1), hw(h3));
            println!("WIPE {} {}", $name, word);
            h.update(word.as_bytes());
        }
        println!("KEM {} {}", $name, hexs(&h.finalize()));
        #[cfg(any(feature = "alloc", feature = "std"))]
        println!("KEM-ALLOC {} {}", $name, hexs(&ha.finalize()));
    }};
}

// API presence: these items only have to compile
#[cfg(feature = "need_alloc_api")]
#[allow(dead_code)]
fn need_alloc_api() {
    #[cfg(feature = "x25519")]
    {
        type K = hpke::kem::X25519HkdfSha256;
        let _ = hpke::single_shot_seal::<hpke::aead::ChaCha20Poly1305, hpke::kdf::HkdfSha256, K, DetRng>;
        let _ = hpke::single_shot_open::<hpke::aead::ChaCha20Poly1305, hpke::kdf::HkdfSha256, K>;
        let _ = hpke::aead::AeadCtxS::<hpke::aead::ChaCha20Poly1305, hpke::kdf::HkdfSha256, K>::seal;
        let _ = hpke::aead::AeadCtxR::<hpke::aead::ChaCha20Poly1305, hpke::kdf::HkdfSha256, K>::open;
    }
    #[cfg(all(not(feature = "x25519"), not(feature = "p256"), feature = "p384"))]
    {
        type K = hpke::kem::DhP384HkdfSha384;
        let _ = hpke::single_shot_seal::<hpke::aead::ChaCha20Poly1305, hpke::kdf::HkdfSha256, K, DetRng>;
        let _ = hpke::single_shot_open::<hpke::aead::ChaCha20Poly1305, hpke::kdf::HkdfSha256, K>;
        let _ = hpke::aead::AeadCtxS::<hpke::aead::ChaCha20Poly1305, hpke::kdf::HkdfSha256, K>::seal;
        let _ = hpke::aead::AeadCtxR::<hpke::aead::ChaCha20Poly1305, hpke::kdf::HkdfSha256, K>::open;
    }
    #[cfg(all(not(feature = "x25519"), not(feature = "p256"), not(feature = "p384"), feature = "p521"))]
    {
        type K = hpke::kem::DhP521HkdfSha512;
        let _ = hpke::single_shot_seal::<hpke::aead::ChaCha20Poly1305, hpke::kdf::HkdfSha256, K, DetRng>;
        let _ = hpke::single_shot_open::<hpke::aead::ChaCha20Poly1305, hpke::kdf::HkdfSha256, K>;
        let _ = hpke::aead::AeadCtxS::<hpke::aead::ChaCha20Poly1305, hpke::kdf::HkdfSha256, K>::seal;
        let _ = hpke::aead::AeadCtxR::<hpke::aead::ChaCha20Poly1305, hpke::kdf::HkdfSha256, K>::open;
    }
    #[cfg(all(not(feature = "x25519"), feature = "p256"))]
    {
        type K = hpke::kem::DhP256HkdfSha256;
        let _ = hpke::single_shot_seal::<hpke::aead::ChaCha20Poly1305, hpke::kdf::HkdfSha256, K, DetRng>;
        let _ = hpke::single_shot_open::<hpke::aead::ChaCha20Poly1305, hpke::kdf::HkdfSha256, K>;
        let _ = hpke::aead::AeadCtxS::<hpke::aead::ChaCha20Poly1305, hpke::kdf::HkdfSha256, K>::seal;
        let _ = hpke::aead::AeadCtxR::<hpke::aead::ChaCha20Poly1305, hpke::kdf::HkdfSha256, K>::open;
    }
}

#[cfg(feature = "need_inplace_api")]
#[allow(dead_code)]
fn need_inplace_api<A: hpke::aead::Aead, Kdf: hpke::kdf::Kdf, K: hpke::Kem>() {
    let _ = hpke::single_shot_seal_in_place_detached::<A, Kdf, K, DetRng>;
    let _ = hpke::single_shot_open_in_place_detached::<A, Kdf, K>;
    let _ = hpke::setup_sender::<A, Kdf, K, DetRng>;
    let _ = hpke::setup_receiver::<A, Kdf, K>;
    let _ = hpke::aead::AeadCtxS::<A, Kdf, K>::seal_in_place_detached;
    let _ = hpke::aead::AeadCtxR::<A, Kdf, K>::open_in_place_detached;
    let _ = hpke::aead::AeadCtxS::<A, Kdf, K>::export;
    let _ = hpke::aead::AeadCtxR::<A, Kdf, K>::export;
}

// With the verification guard off this must NOT compile
#[cfg(feature = "need_verif_api")]
#[allow(dead_code)]
fn need_verif_api() {
    let _ = hpke::verif::ledger(0);
}

fn main() {
    std::panic::set_hook(Box::new(|_| {}));
    #[cfg(feature = "x25519")]
    transcript!("x25519", hpke::kem::X25519HkdfSha256);
    #[cfg(feature = "p256")]
    transcript!("p256", hpke::kem::DhP256HkdfSha256);
    #[cfg(feature = "p384")]
    transcript!("p384", hpke::kem::DhP384HkdfSha384);
    #[cfg(feature = "p521")]
    transcript!("p521", hpke::kem::DhP521HkdfSha512);
    println!("DONE");
}
