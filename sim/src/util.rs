//! Small helpers: hex, serde hex bytes, sha256 digest for signatures

use serde::{Deserialize, Deserializer, Serialize, Serializer};

pub fn hex(b: &[u8]) -> String {
    let mut s = String::with_capacity(b.len() * 2);
    for x in b {
        s.push_str(&format!("{:02x}", x));
    }
    s
}
pub fn unhex(s: &str) -> Vec<u8> {
    let s: Vec<u8> = s.bytes().filter(|c| !c.is_ascii_whitespace()).collect();
    assert!(s.len() % 2 == 0, "odd hex length");
    s.chunks(2)
        .map(|p| {
            let h = (p[0] as char).to_digit(16).expect("hex") as u8;
            let l = (p[1] as char).to_digit(16).expect("hex") as u8;
            (h << 4) | l
        })
        .collect()
}
pub fn short_hex(b: &[u8]) -> String {
    if b.len() <= 24 {
        hex(b)
    } else {
        format!("{}..({}B)..{}", hex(&b[..8]), b.len(), hex(&b[b.len() - 4..]))
    }
}

/// Byte string that serialises as hex in replay files
#[derive(Clone, PartialEq, Eq, Hash, Default, PartialOrd, Ord)]
pub struct B(pub Vec<u8>);
impl std::fmt::Debug for B {
    fn fmt(&self, f: &mut std::fmt::Formatter<'_>) -> std::fmt::Result {
        write!(f, "h'{}'", short_hex(&self.0))
    }
}
impl Serialize for B {
    fn serialize<S: Serializer>(&self, s: S) -> Result<S::Ok, S::Error> {
        s.serialize_str(&hex(&self.0))
    }
}
impl<'de> Deserialize<'de> for B {
    fn deserialize<D: Deserializer<'de>>(d: D) -> Result<B, D::Error> {
        let s = String::deserialize(d)?;
        Ok(B(unhex(&s)))
    }
}
impl std::ops::Deref for B {
    type Target = Vec<u8>;
    fn deref(&self) -> &Vec<u8> {
        &self.0
    }
}
impl From<Vec<u8>> for B {
    fn from(v: Vec<u8>) -> B {
        B(v)
    }
}
impl From<&[u8]> for B {
    fn from(v: &[u8]) -> B {
        B(v.to_vec())
    }
}

pub fn sha256(parts: &[&[u8]]) -> [u8; 32] {
    use sha2::Digest;
    let mut d = sha2::Sha256::new();
    for p in parts {
        d.update(p);
    }
    d.finalize().into()
}

/// 64-bit FNV-1a, used for cheap run signatures
pub struct Fnv(pub u64);
impl Fnv {
    pub fn new() -> Fnv {
        Fnv(0xcbf2_9ce4_8422_2325)
    }
    pub fn put(&mut self, b: &[u8]) {
        for x in b {
            self.0 ^= *x as u64;
            self.0 = self.0.wrapping_mul(0x0000_0100_0000_01B3);
        }
    }
    pub fn put_u64(&mut self, v: u64) {
        self.put(&v.to_le_bytes())
    }
}
