//! C18 engine: many independent worlds (sessions) interleaved at operation granularity and placed
//! on real OS worker threads by a token-passing scheduler (exactly one worker holds the token at any
//! time, the others are parked on a rendezvous channel), compared with the same worlds executed
//! alone, sequentially, on one thread. Hidden state in the library (a global counter, a cache of
//! ephemeral material, thread-local state) makes the two executions diverge.

use crate::cov::Cov;
use crate::events::*;
use crate::gen::{self, Tier};
use crate::prng::Prng;
use crate::world::{World, P};
use std::sync::mpsc;

struct SendWorld(World);
// The contexts inside a World are moved between worker threads. That they really are `Send` is
// checked at compile time by /verif/c18/sendsync (a `!Send` regression is reported there); here the
// simulator asserts it so that a regression breaks only that build, not every check.
unsafe impl Send for SendWorld {}

pub const MAX_WORLDS: usize = 8;
pub const MAX_WORKERS: usize = 4;

/// (global index, thread, event) of every operation, in execution order, nested ones flattened.
/// Nested operations that name the world of their outer operation are dropped (that world is busy).
fn flatten(case: &Case) -> Vec<(usize, usize, usize, &Ev)> {
    let mut out = vec![];
    for (i, e) in case.events.iter().enumerate() {
        match e {
            Ev::On { w, t, inner } if *w < MAX_WORLDS => out.push((i, *w, *t % MAX_WORKERS, &**inner)),
            Ev::OnNested { w, t, inner, nested, .. } if *w < MAX_WORLDS => {
                out.push((i, *w, *t % MAX_WORKERS, &**inner));
                for n in nested {
                    if let Ev::On { w: w2, t: t2, inner: i2 } = n {
                        if *w2 < MAX_WORLDS && w2 != w {
                            out.push((i, *w2, *t2 % MAX_WORKERS, &**i2));
                        }
                    }
                }
            }
            _ => {}
        }
    }
    out
}

fn split(case: &Case) -> Vec<Vec<(usize, usize, &Ev)>> {
    // per world: (global index, thread, event)
    let mut per: Vec<Vec<(usize, usize, &Ev)>> = (0..MAX_WORLDS).map(|_| vec![]).collect();
    for (i, w, t, e) in flatten(case) {
        per[w].push((i, t, e));
    }
    per
}

/// World profile used inside C18 worlds: the ideal-channel oracles of C05 stay on, so a hidden-state
/// bug is reported either as a broken prediction or as a transcript divergence.
fn new_world() -> World {
    World::new(P::C18)
}

enum ToW {
    Job(SendWorld, Ev, usize),
    Resume,
    Quit,
}
enum FromW {
    /// the running operation is suspended inside a library call, at this seam
    Yield(&'static str),
    Done(SendWorld, Result<(), Violation>, Cov),
}

fn run_job(mut sw: SendWorld, ev: Ev, gi: usize, back: &mpsc::SyncSender<FromW>) -> bool {
    let mut c = Cov::new();
    sw.0.ev_idx = gi;
    let r = sw.0.apply(&ev, &mut c);
    back.send(FromW::Done(sw, r, c)).is_ok()
}

struct Sched<'a> {
    to_worker: Vec<mpsc::SyncSender<ToW>>,
    back_rx: mpsc::Receiver<FromW>,
    worlds: Vec<Option<SendWorld>>,
    done: Vec<usize>,
    last_thread: Vec<Option<usize>>,
    seq_tx: &'a [Vec<u64>],
    others: usize,
}

impl<'a> Sched<'a> {
    /// Run one operation of world `w` on worker `t`. While it is suspended at its `at`-th seam call the
    /// `nested` operations run (depth one: their own seam calls are resumed at once).
    fn dispatch(&mut self, gi: usize, w: usize, t: usize, inner: &Ev, nest: Option<(u32, &[Ev])>, busy: Option<(usize, usize)>, cov: &mut Cov) -> Option<Violation> {
        let sw = match self.worlds[w].take() {
            Some(sw) => sw,
            None => return None, // world suspended inside the outer operation
        };
        let reentrant = busy.map(|(_, bt)| bt == t).unwrap_or(false);
        self.to_worker[t].send(ToW::Job(sw, inner.clone(), gi)).expect("worker alive");
        let mut pending = nest;
        let mut yields = 0u32;
        let (sw, r, c) = loop {
            match self.back_rx.recv().expect("worker alive") {
                FromW::Yield(site) => {
                    if let Some((at, list)) = pending {
                        if yields == at {
                            pending = None;
                            cov.hit(&format!("fault.preempted_inside_call.{}", site));
                            for n in list {
                                if let Ev::On { w: w2, t: t2, inner: i2 } = n {
                                    if *w2 < MAX_WORLDS && *w2 != w {
                                        let t2 = *t2 % MAX_WORKERS;
                                        if t2 == t {
                                            cov.hit("fault.reentered_on_same_thread");
                                        }
                                        if let Some(v) = self.dispatch(gi, *w2, t2, i2, None, Some((w, t)), cov) {
                                            // the suspended operation is abandoned: release its worker
                                            let _ = self.to_worker[t].send(ToW::Resume);
                                            loop {
                                                match self.back_rx.recv() {
                                                    Ok(FromW::Yield(_)) => {
                                                        let _ = self.to_worker[t].send(ToW::Resume);
                                                    }
                                                    _ => break,
                                                }
                                            }
                                            return Some(v);
                                        }
                                    }
                                }
                            }
                        }
                    }
                    yields += 1;
                    self.to_worker[t].send(ToW::Resume).expect("worker alive");
                }
                FromW::Done(sw, r, c) => break (sw, r, c),
            }
        };
        let _ = reentrant;
        cov.merge(&c);
        cov.events += 1;
        cov.hit(&format!("c18.placed_on_worker.{}", t));
        if let Some(lt) = self.last_thread[w] {
            if lt != t {
                cov.hit("fault.context_migrated_between_threads");
            }
        }
        self.last_thread[w] = Some(t);
        cov.sig_event("On", &format!("{}@{}{}{}", w, t, inner.kind(), if busy.is_some() { "^" } else { "" }));
        let tx_now = sw.0.tx.0;
        self.worlds[w] = Some(sw);
        if let Err(v) = r {
            let mut v = v;
            v.invariant = format!("interleaved.{}", v.invariant);
            return Some(v);
        }
        let want = self.seq_tx[w].get(self.done[w]).copied().unwrap_or(0);
        self.done[w] += 1;
        if tx_now != want {
            return Some(Violation {
                property: "C18".into(),
                invariant: "c18.transcript-diverges".into(),
                at_event: gi,
                expected: format!("world {} after its event #{} ({}) has transcript hash {:016x}, as when executed alone on one thread", w, self.done[w], inner.kind(), want),
                observed: format!(
                    "{:016x} when interleaved with {} other worlds, this operation on worker {}{}",
                    tx_now,
                    self.others,
                    t,
                    match busy {
                        Some((bw, bt)) if bt == t => format!(", re-entrantly while an operation of world {} was suspended inside a library call on the same thread", bw),
                        Some((bw, bt)) => format!(", while an operation of world {} was suspended inside a library call on worker {}", bw, bt),
                        None => String::new(),
                    }
                ),
            });
        }
        // nested operations whose seam never came run right after the operation
        if let Some((_, list)) = pending {
            for n in list {
                if let Ev::On { w: w2, t: t2, inner: i2 } = n {
                    if *w2 < MAX_WORLDS && *w2 != w {
                        if let Some(v) = self.dispatch(gi, *w2, *t2 % MAX_WORKERS, i2, None, None, cov) {
                            return Some(v);
                        }
                    }
                }
            }
        }
        None
    }
}

pub fn execute_c18(case: &Case, cov: &mut Cov) -> Option<Violation> {
    let per = split(case);
    // 1. every world alone, sequentially, on this thread
    let mut seq_tx: Vec<Vec<u64>> = vec![];
    for evs in per.iter() {
        let mut w = new_world();
        let mut txs = vec![];
        let mut c = Cov::new();
        for (gi, _, ev) in evs.iter() {
            w.ev_idx = *gi;
            if let Err(v) = w.apply(ev, &mut c) {
                let mut v = v;
                v.invariant = format!("isolated.{}", v.invariant);
                return Some(v);
            }
            txs.push(w.tx.0);
        }
        seq_tx.push(txs);
    }
    {
        let mut f = crate::util::Fnv::new();
        for txs in seq_tx.iter() {
            f.put_u64(txs.last().copied().unwrap_or(0));
        }
        cov.aux = f.0;
    }
    // 2. interleaved, with every operation placed on a worker thread; the seams at which the library
    //    calls out (RNG, shimmed AEAD) are preemption points inside an operation
    let mut to_worker: Vec<mpsc::SyncSender<ToW>> = vec![];
    let (back_tx, back_rx) = mpsc::sync_channel::<FromW>(0);
    let mut handles = vec![];
    for _ in 0..MAX_WORKERS {
        let (tx, rx) = mpsc::sync_channel::<ToW>(0);
        let back = back_tx.clone();
        to_worker.push(tx);
        handles.push(std::thread::spawn(move || {
            let rx = std::rc::Rc::new(rx);
            let (rx2, back2) = (rx.clone(), back.clone());
            crate::shim::set_yield_hook(Some(Box::new(move |site| {
                if back2.send(FromW::Yield(site)).is_err() {
                    return;
                }
                loop {
                    match rx2.recv() {
                        Ok(ToW::Job(sw, ev, gi)) => {
                            if !run_job(sw, ev, gi, &back2) {
                                return;
                            }
                        }
                        _ => return,
                    }
                }
            })));
            loop {
                match rx.recv() {
                    Ok(ToW::Job(sw, ev, gi)) => {
                        if !run_job(sw, ev, gi, &back) {
                            break;
                        }
                    }
                    Ok(ToW::Resume) => {}
                    _ => break,
                }
            }
            crate::shim::set_yield_hook(None);
        }));
    }
    let mut s = Sched {
        to_worker,
        back_rx,
        worlds: (0..MAX_WORLDS).map(|_| Some(SendWorld(new_world()))).collect(),
        done: vec![0; MAX_WORLDS],
        last_thread: vec![None; MAX_WORLDS],
        seq_tx: &seq_tx,
        others: per.iter().filter(|p| !p.is_empty()).count().saturating_sub(1),
    };
    let mut result = None;
    for (gi, e) in case.events.iter().enumerate() {
        let r = match e {
            Ev::On { w, t, inner } if *w < MAX_WORLDS => s.dispatch(gi, *w, *t % MAX_WORKERS, inner, None, None, cov),
            Ev::OnNested { w, t, inner, at, nested } if *w < MAX_WORLDS => s.dispatch(gi, *w, *t % MAX_WORKERS, inner, Some((*at, nested)), None, cov),
            _ => None,
        };
        if r.is_some() {
            result = r;
            break;
        }
    }
    for tx in s.to_worker.iter() {
        let _ = tx.send(ToW::Quit);
    }
    drop(back_tx);
    drop(s);
    for h in handles {
        let _ = h.join();
    }
    result
}

/// A single world of profile `p` executed with every event on one of three threads (the calling thread
/// and two helpers), chosen by the event index. Used by every profile for a fraction of its runs.
pub fn execute_hopping(case: &Case, p: P, cov: &mut Cov) -> Option<Violation> {
    let (to_a, rx_a) = mpsc::sync_channel::<Option<(SendWorld, Ev, usize)>>(0);
    let (to_b, rx_b) = mpsc::sync_channel::<Option<(SendWorld, Ev, usize)>>(0);
    let (back_tx, back_rx) = mpsc::sync_channel::<(SendWorld, Result<(), Violation>, Cov)>(0);
    let mut hs = vec![];
    for rx in [rx_a, rx_b] {
        let back = back_tx.clone();
        hs.push(std::thread::spawn(move || {
            while let Ok(Some((mut sw, ev, gi))) = rx.recv() {
                let mut c = Cov::new();
                sw.0.ev_idx = gi;
                let r = sw.0.apply(&ev, &mut c);
                if back.send((sw, r, c)).is_err() {
                    break;
                }
            }
        }));
    }
    let mut w = Some(SendWorld(World::new(p)));
    let mut result = None;
    let mut last = 9usize;
    for (i, ev) in case.events.iter().enumerate() {
        // thread of event i: a fixed, index-derived pattern with runs of different lengths
        let t = ((i * 2654435761usize) >> 7) % 3;
        if t != last && last != 9 {
            cov.hit("fault.world_moved_to_another_thread");
        }
        last = t;
        let mut sw = w.take().unwrap();
        let r = if t == 2 {
            sw.0.ev_idx = i;
            let r = sw.0.apply(ev, cov);
            w = Some(sw);
            r
        } else {
            let tx = if t == 0 { &to_a } else { &to_b };
            tx.send(Some((sw, ev.clone(), i))).expect("helper alive");
            let (sw, r, c) = back_rx.recv().expect("helper alive");
            cov.merge(&c);
            w = Some(sw);
            r
        };
        if let Err(v) = r {
            result = Some(v);
            break;
        }
    }
    let _ = to_a.send(None);
    let _ = to_b.send(None);
    drop(back_tx);
    // the world is dropped here, on the calling thread
    drop(w);
    for h in hs {
        let _ = h.join();
    }
    result
}

// ---------------------------------------------------------------------------------- generator

pub fn gen_c18(rng: &mut Prng, run: u64, t: &Tier) -> Vec<Ev> {
    let nworlds = rng.range(2, 6);
    let workers = rng.range(1, MAX_WORKERS);
    let mut lists: Vec<Vec<Ev>> = vec![];
    for w in 0..nworlds {
        let sub = run.wrapping_mul(7).wrapping_add(w as u64);
        let mut l = match rng.below(7) {
            0 => gen::gen_c01(rng, sub, t),
            1 => gen::gen_c11(rng, sub, t),
            // hostile inputs and failing setups (error paths leave no residue for the next session,
            // on this thread or any other)
            5 => gen::gen_c10(rng, sub, t),
            6 => gen::gen_c13(rng, sub, t),
            _ => {
                let o = gen::HistOpts {
                    sessions: rng.range(1, 2),
                    steps: rng.range(5, 40),
                    jumps: rng.chance(1, 2),
                    exports: true,
                    teardown: rng.chance(1, 3),
                    restart: true,
                    single_shot: true,
                    shim_ok: true,
                    aeads: &crate::suites::ALL_AEADS,
                    export_lens: vec![],
                    fault_rate: *rng.pick(&[0u64, 3, 8]),
                };
                gen::gen_history(rng, sub, &o)
            }
        };
        l.truncate(120);
        lists.push(l);
    }
    // repetition probes: a world that is an exact copy of another one (same keys, same RNG script):
    // its outputs must be identical although the same inputs were already used elsewhere
    if nworlds < MAX_WORLDS && rng.chance(1, 2) {
        let src = rng.below(lists.len() as u64) as usize;
        lists.push(lists[src].clone());
    }
    // interleave: pick the next world by one of three policies, place each operation on a worker
    let mut idx = vec![0usize; lists.len()];
    let mut out = vec![];
    let policy = rng.below(3);
    let mut cur = 0usize;
    let mut cur_thread: Vec<usize> = (0..lists.len()).map(|_| rng.below(workers as u64) as usize).collect();
    loop {
        let live: Vec<usize> = (0..lists.len()).filter(|w| idx[*w] < lists[*w].len()).collect();
        if live.is_empty() {
            break;
        }
        if policy == 0 || !live.contains(&cur) || rng.chance(1, if policy == 1 { 6 } else { 2 }) {
            cur = *rng.pick(&live);
        }
        // migrate the world to another worker now and then
        if rng.chance(1, 3) {
            cur_thread[cur] = rng.below(workers as u64) as usize;
        }
        let ev = lists[cur][idx[cur]].clone();
        idx[cur] += 1;
        // preemption inside the call: operations that draw from the caller's RNG (or call a shimmed
        // AEAD) may be suspended at that seam while operations of other worlds run
        let seamy = matches!(ev, Ev::SetupS { .. } | Ev::SingleShotSeal { .. } | Ev::KeygenRng { .. } | Ev::GenProbe { .. } | Ev::KemProbe { .. } | Ev::Seal { .. } | Ev::Deliver { .. } | Ev::Pump { .. });
        if seamy && rng.chance(1, 3) {
            let mut nested = vec![];
            let k = rng.range(1, 3);
            for _ in 0..k {
                let others: Vec<usize> = (0..lists.len()).filter(|w| *w != cur && idx[*w] < lists[*w].len()).collect();
                if others.is_empty() {
                    break;
                }
                let o = *rng.pick(&others);
                // same worker thread (re-entrant) now and then, otherwise another worker
                let t2 = if rng.chance(1, 4) { cur_thread[cur] } else { rng.below(MAX_WORKERS as u64) as usize };
                nested.push(Ev::On { w: o, t: t2, inner: Box::new(lists[o][idx[o]].clone()) });
                idx[o] += 1;
            }
            if !nested.is_empty() {
                out.push(Ev::OnNested { w: cur, t: cur_thread[cur], inner: Box::new(ev), at: if rng.chance(2, 3) { 0 } else { rng.below(3) as u32 }, nested });
                continue;
            }
        }
        out.push(Ev::On { w: cur, t: cur_thread[cur], inner: Box::new(ev) });
    }
    out
}

/// Hash of the transcripts of all worlds of a case, each executed alone on the calling thread.
/// Used to compare processes with different histories (results must not depend on earlier calls).
pub fn isolated_aux(case: &Case) -> u64 {
    let per = split(case);
    let mut f = crate::util::Fnv::new();
    for evs in per.iter() {
        let mut w = new_world();
        let mut c = Cov::new();
        let mut last = 0u64;
        for (gi, _, ev) in evs.iter() {
            w.ev_idx = *gi;
            if w.apply(ev, &mut c).is_err() {
                break;
            }
            last = w.tx.0;
        }
        f.put_u64(last);
    }
    f.0
}
