//! C18 engine: many independent worlds (sessions) interleaved at operation granularity and placed
//! on real OS worker threads by a token-passing scheduler (exactly one worker holds the token at any
//! time, the others are parked on a rendezvous channel), compared with the same worlds executed
//! alone, sequentially, on one thread. Hidden state in the library (a global counter, a cache of
//! ephemeral material, thread-local state) makes the two executions diverge.

use crate::cov::Cov;
use crate::events::*;
use crate::gen::{self, Tier};
use crate::prng::Prng;
use crate::world::{World, P};
use std::sync::mpsc;

struct SendWorld(World);
// The contexts inside a World are moved between worker threads. That they really are `Send` is
// checked at compile time by /verif/c18/sendsync (a `!Send` regression is reported there); here the
// simulator asserts it so that a regression breaks only that build, not every check.
unsafe impl Send for SendWorld {}

pub const MAX_WORLDS: usize = 8;
pub const MAX_WORKERS: usize = 4;

fn split(case: &Case) -> Vec<Vec<(usize, usize, &Ev)>> {
    // per world: (global index, thread, event)
    let mut per: Vec<Vec<(usize, usize, &Ev)>> = (0..MAX_WORLDS).map(|_| vec![]).collect();
    for (i, e) in case.events.iter().enumerate() {
        if let Ev::On { w, t, inner } = e {
            if *w < MAX_WORLDS {
                per[*w].push((i, *t % MAX_WORKERS, inner));
            }
        }
    }
    per
}

/// World profile used inside C18 worlds: the ideal-channel oracles of C05 stay on, so a hidden-state
/// bug is reported either as a broken prediction or as a transcript divergence.
fn new_world() -> World {
    World::new(P::C18)
}

pub fn execute_c18(case: &Case, cov: &mut Cov) -> Option<Violation> {
    let per = split(case);
    // 1. every world alone, sequentially, on this thread
    let mut seq_tx: Vec<Vec<u64>> = vec![];
    for evs in per.iter() {
        let mut w = new_world();
        let mut txs = vec![];
        let mut c = Cov::new();
        for (gi, _, ev) in evs.iter() {
            w.ev_idx = *gi;
            if let Err(v) = w.apply(ev, &mut c) {
                let mut v = v;
                v.invariant = format!("isolated.{}", v.invariant);
                return Some(v);
            }
            txs.push(w.tx.0);
        }
        seq_tx.push(txs);
    }
    {
        let mut f = crate::util::Fnv::new();
        for txs in seq_tx.iter() {
            f.put_u64(txs.last().copied().unwrap_or(0));
        }
        cov.aux = f.0;
    }
    // 2. interleaved, with every operation placed on a worker thread
    let mut to_worker: Vec<mpsc::SyncSender<Option<(SendWorld, Ev, usize)>>> = vec![];
    let (back_tx, back_rx) = mpsc::sync_channel::<(SendWorld, Result<(), Violation>, Cov)>(0);
    let mut handles = vec![];
    for _ in 0..MAX_WORKERS {
        let (tx, rx) = mpsc::sync_channel::<Option<(SendWorld, Ev, usize)>>(0);
        let back = back_tx.clone();
        to_worker.push(tx);
        handles.push(std::thread::spawn(move || {
            while let Ok(Some((mut sw, ev, gi))) = rx.recv() {
                let mut c = Cov::new();
                sw.0.ev_idx = gi;
                let r = sw.0.apply(&ev, &mut c);
                if back.send((sw, r, c)).is_err() {
                    break;
                }
            }
        }));
    }
    let mut worlds: Vec<Option<SendWorld>> = (0..MAX_WORLDS).map(|_| Some(SendWorld(new_world()))).collect();
    let mut done: Vec<usize> = vec![0; MAX_WORLDS];
    let mut last_thread: Vec<Option<usize>> = vec![None; MAX_WORLDS];
    let mut result = None;
    for (gi, e) in case.events.iter().enumerate() {
        if let Ev::On { w, t, inner } = e {
            if *w >= MAX_WORLDS {
                continue;
            }
            let t = *t % MAX_WORKERS;
            let sw = worlds[*w].take().unwrap();
            to_worker[t].send(Some((sw, (**inner).clone(), gi))).expect("worker alive");
            let (sw, r, c) = back_rx.recv().expect("worker alive");
            cov.merge(&c);
            cov.events += 1;
            cov.hit(&format!("c18.placed_on_worker.{}", t));
            if let Some(lt) = last_thread[*w] {
                if lt != t {
                    cov.hit("fault.context_migrated_between_threads");
                }
            }
            last_thread[*w] = Some(t);
            cov.sig_event("On", &format!("{}@{}{}", w, t, inner.kind()));
            let tx_now = sw.0.tx.0;
            worlds[*w] = Some(sw);
            if let Err(v) = r {
                let mut v = v;
                v.invariant = format!("interleaved.{}", v.invariant);
                result = Some(v);
                break;
            }
            let want = seq_tx[*w][done[*w]];
            done[*w] += 1;
            if tx_now != want {
                result = Some(Violation {
                    property: "C18".into(),
                    invariant: "c18.transcript-diverges".into(),
                    at_event: gi,
                    expected: format!("world {} after its event #{} ({}) has transcript hash {:016x}, as when executed alone on one thread", w, done[*w], inner.kind(), want),
                    observed: format!("{:016x} when interleaved with {} other worlds, this operation on worker {}", tx_now, per.iter().filter(|p| !p.is_empty()).count().saturating_sub(1), t),
                });
                break;
            }
        }
    }
    for tx in to_worker.iter() {
        let _ = tx.send(None);
    }
    drop(back_tx);
    for h in handles {
        let _ = h.join();
    }
    result
}

// ---------------------------------------------------------------------------------- generator

pub fn gen_c18(rng: &mut Prng, run: u64, t: &Tier) -> Vec<Ev> {
    let nworlds = rng.range(2, 6);
    let workers = rng.range(1, MAX_WORKERS);
    let mut lists: Vec<Vec<Ev>> = vec![];
    for w in 0..nworlds {
        let sub = run.wrapping_mul(7).wrapping_add(w as u64);
        let mut l = match rng.below(5) {
            0 => gen::gen_c01(rng, sub, t),
            1 => gen::gen_c11(rng, sub, t),
            _ => {
                let o = gen::HistOpts {
                    sessions: rng.range(1, 2),
                    steps: rng.range(5, 40),
                    jumps: rng.chance(1, 2),
                    exports: true,
                    teardown: rng.chance(1, 3),
                    restart: true,
                    single_shot: true,
                    shim_ok: true,
                    aeads: &crate::suites::ALL_AEADS,
                    export_lens: vec![],
                    fault_rate: *rng.pick(&[0u64, 3, 8]),
                };
                gen::gen_history(rng, sub, &o)
            }
        };
        l.truncate(120);
        lists.push(l);
    }
    // repetition probes: a world that is an exact copy of another one (same keys, same RNG script):
    // its outputs must be identical although the same inputs were already used elsewhere
    if nworlds < MAX_WORLDS && rng.chance(1, 2) {
        let src = rng.below(lists.len() as u64) as usize;
        lists.push(lists[src].clone());
    }
    // interleave: pick the next world by one of three policies, place each operation on a worker
    let mut idx = vec![0usize; lists.len()];
    let mut out = vec![];
    let policy = rng.below(3);
    let mut cur = 0usize;
    let mut cur_thread: Vec<usize> = (0..lists.len()).map(|_| rng.below(workers as u64) as usize).collect();
    loop {
        let live: Vec<usize> = (0..lists.len()).filter(|w| idx[*w] < lists[*w].len()).collect();
        if live.is_empty() {
            break;
        }
        if policy == 0 || !live.contains(&cur) || rng.chance(1, if policy == 1 { 6 } else { 2 }) {
            cur = *rng.pick(&live);
        }
        // migrate the world to another worker now and then
        if rng.chance(1, 3) {
            cur_thread[cur] = rng.below(workers as u64) as usize;
        }
        let ev = lists[cur][idx[cur]].clone();
        idx[cur] += 1;
        out.push(Ev::On { w: cur, t: cur_thread[cur], inner: Box::new(ev) });
    }
    out
}

/// Hash of the transcripts of all worlds of a case, each executed alone on the calling thread.
/// Used to compare processes with different histories (results must not depend on earlier calls).
pub fn isolated_aux(case: &Case) -> u64 {
    let per = split(case);
    let mut f = crate::util::Fnv::new();
    for evs in per.iter() {
        let mut w = new_world();
        let mut c = Cov::new();
        let mut last = 0u64;
        for (gi, _, ev) in evs.iter() {
            w.ev_idx = *gi;
            if w.apply(ev, &mut c).is_err() {
                break;
            }
            last = w.tx.0;
        }
        f.put_u64(last);
    }
    f.0
}
