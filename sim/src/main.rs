//! hpke-sim: deterministic simulation with fault injection for rust-hpke (see /verif/DESIGN.md).
//!
//!   hpke-sim run <Cxx> [--tier quick|thorough] [--seed N] [--runs N] [--workers W]
//!                [--evidence FILE] [--replay-dir DIR] [--known FILE]
//!   hpke-sim replay <file>
//!   hpke-sim digest <Cxx> [--seed N] [--runs N] [--workers W]     (determinism self-test)
//!   hpke-sim selftest
//!
//! exit 0: property held on everything explored; 1: violation (line `VIOLATION property=.. replay=..`);
//! 2: harness error.

#![allow(dead_code)]
mod c18;
mod cov;
mod events;
mod gen;
mod math;
mod prng;
mod refhpke;
mod shrink;
mod special;
mod util;
mod world;
mod world_ops;
mod world_probes;

pub use hpke_dyn::shim;
pub use hpke_dyn::heapscan;

#[global_allocator]
static GLOBAL: hpke_dyn::heapscan::ScanAlloc = hpke_dyn::heapscan::ScanAlloc;
pub mod suites {
    pub use hpke_dyn::suites::*;
    pub fn suite(id: SuiteId) -> &'static dyn Suite {
        match id.kem {
            KemId::X25519 => dyn_x25519::get(id.kdf, id.aead, id.shim),
            KemId::P256 => dyn_p256::get(id.kdf, id.aead, id.shim),
            KemId::P384 => dyn_p384::get(id.kdf, id.aead, id.shim),
            KemId::P521 => dyn_p521::get(id.kdf, id.aead, id.shim),
        }
    }
}
use cov::Cov;
use events::*;
use serde_json::json;
use std::collections::{BTreeMap, HashSet};
use std::sync::atomic::{AtomicU64, Ordering};
use std::sync::{Arc, Mutex};
use std::time::Instant;
use world::P;

pub const HARNESS_VERSION: &str = "hpke-sim 1";

struct Args {
    cmd: String,
    pos: Vec<String>,
    opts: BTreeMap<String, String>,
}
fn parse_args() -> Args {
    let mut it = std::env::args().skip(1);
    let cmd = it.next().unwrap_or_default();
    let mut pos = vec![];
    let mut opts = BTreeMap::new();
    let rest: Vec<String> = it.collect();
    let mut i = 0;
    while i < rest.len() {
        if let Some(k) = rest[i].strip_prefix("--") {
            let v = rest.get(i + 1).cloned().unwrap_or_default();
            opts.insert(k.to_string(), v);
            i += 2;
        } else {
            pos.push(rest[i].clone());
            i += 1;
        }
    }
    Args { cmd, pos, opts }
}

fn default_runs(p: P, thorough: bool) -> u64 {
    let (q, t) = match p {
        P::C01 => (36_000, 400_000),
        P::C02 => (40_000, 400_000),
        P::C03 => (16_000, 160_000),
        P::C04 => (100_000, 600_000),
        P::C05 => (40_000, 400_000),
        P::C06 => (6_000, 48_000),
        P::C07 => (40_000, 600_000),
        P::C08 => (40_000, 600_000),
        P::C09 => (19_200, 120_000),
        P::C10 => (33_600, 336_000),
        P::C11 => (30_000, 450_000),
        P::C12 => (12_800, 64_000),
        P::C13 => (40_000, 400_000),
        P::C14 => (36_000, 500_000),
        P::C15 => (40_000, 400_000),
        P::C16 => (24_000, 200_000),
        P::C18 => (6_000, 48_000),
    };
    if thorough {
        t
    } else {
        q
    }
}

static TRACE: std::sync::OnceLock<String> = std::sync::OnceLock::new();

struct RunOut {
    aux: u64,
    sig: u64,
    nontrivial: bool,
    violation: Option<Violation>,
    sample: Option<String>,
}

fn gen_case(p: P, master: u64, run: u64, thorough: bool) -> Case {
    let rs = prng::run_seed(master, p.name(), run);
    let mut rng = prng::Prng::new(rs);
    let t = gen::Tier { thorough };
    let events = gen::generate(p, &mut rng, run, &t);
    Case { property: p.name().to_string(), master_seed: master, run_index: run, run_seed: rs, tier: if thorough { "thorough".into() } else { "quick".into() }, events }
}

fn nontrivial(case: &Case) -> bool {
    case.events.iter().any(|e| !matches!(e, Ev::Keygen { .. } | Ev::KeygenRng { .. } | Ev::KeyRaw { .. } | Ev::SetupS { .. } | Ev::SetupR { .. }))
}

fn brief_case(case: &Case) -> String {
    let mut s = format!("run {} seed {:#x}: ", case.run_index, case.run_seed);
    let mut n = 0;
    for e in &case.events {
        let d = format!("{:?}", e);
        let d = if d.len() > 160 { format!("{}..", &d[..160]) } else { d };
        s.push_str(&d);
        s.push_str("; ");
        n += 1;
        if n >= 12 {
            s.push_str(&format!("... ({} events)", case.events.len()));
            break;
        }
    }
    s
}

struct Batch {
    outs: Vec<Option<RunOut>>,
    cov: Cov,
    first_violation_run: Option<u64>,
}

/// C16 uses a process-global drop ledger, so its worlds must run one at a time per process: the
/// batch is spread over child processes (one shard of the run indices each) instead of threads.
fn run_batch_procs(p: P, master: u64, runs: u64, procs: usize, thorough: bool) -> Batch {
    let exe = std::env::current_exe().expect("current exe");
    let dir = std::env::temp_dir().join(format!("hpke-sim-shards-{}", std::process::id()));
    let _ = std::fs::create_dir_all(&dir);
    let mut kids = vec![];
    for k in 0..procs {
        let out = dir.join(format!("shard{}.json", k));
        let child = std::process::Command::new(&exe)
            .args(["shard", p.name(), "--seed", &master.to_string(), "--runs", &runs.to_string(), "--tier", if thorough { "thorough" } else { "quick" }, "--shard", &format!("{}/{}", k, procs), "--out", out.to_str().unwrap()])
            .spawn()
            .expect("spawn shard");
        kids.push((child, out));
    }
    let mut outs: Vec<Option<RunOut>> = (0..runs).map(|_| None).collect();
    let mut cov = Cov::new();
    for (mut child, out) in kids {
        let st = child.wait().expect("wait shard");
        if !st.success() {
            eprintln!("HARNESS ERROR: shard process failed: {:?}", st);
            std::process::exit(2);
        }
        let txt = std::fs::read_to_string(&out).expect("shard output");
        let v: serde_json::Value = serde_json::from_str(&txt).expect("shard json");
        for r in v["runs"].as_array().unwrap() {
            let i = r["i"].as_u64().unwrap() as usize;
            let violation: Option<Violation> = if r["violation"].is_null() { None } else { Some(serde_json::from_value(r["violation"].clone()).unwrap()) };
            outs[i] = Some(RunOut { aux: 0, sig: r["sig"].as_u64().unwrap(), nontrivial: r["nontrivial"].as_bool().unwrap(), violation, sample: r["sample"].as_str().map(|s| s.to_string()) });
        }
        for (k, n) in v["counters"].as_object().unwrap() {
            cov.hit_n(k, n.as_u64().unwrap());
        }
        cov.events += v["events"].as_u64().unwrap();
        cov.ops += v["ops"].as_u64().unwrap();
        cov.max_pos = cov.max_pos.max(v["max_pos"].as_u64().unwrap());
    }
    let _ = std::fs::remove_dir_all(&dir);
    let first = outs.iter().enumerate().find(|(_, o)| o.as_ref().map(|o| o.violation.is_some()).unwrap_or(false)).map(|(i, _)| i as u64);
    Batch { outs, cov, first_violation_run: first }
}

fn cmd_shard(a: &Args) -> i32 {
    let p = P::parse(&a.pos[0]).unwrap();
    let master: u64 = a.opts["seed"].parse().unwrap();
    let runs: u64 = a.opts["runs"].parse().unwrap();
    let thorough = a.opts["tier"] == "thorough";
    let (k, n) = {
        let mut it = a.opts["shard"].split('/');
        (it.next().unwrap().parse::<u64>().unwrap(), it.next().unwrap().parse::<u64>().unwrap())
    };
    let mut cov = Cov::new();
    let mut rows = vec![];
    let mut i = k;
    while i < runs {
        let case = gen_case(p, master, i, thorough);
        let mut c = Cov::new();
        let v = world_probes::execute(&case, &mut c);
        let mut f = util::Fnv(c.sig);
        if let Some(v) = &v {
            f.put(v.invariant.as_bytes());
            f.put_u64(v.at_event as u64);
        }
        cov.merge(&c);
        let stop = v.is_some();
        rows.push(json!({"i": i, "sig": f.0, "nontrivial": nontrivial(&case) && c.ops > 0, "violation": v, "sample": if i < 3 { Some(brief_case(&case)) } else { None }}));
        if stop {
            break;
        }
        i += n;
    }
    let out = json!({"runs": rows, "counters": cov.counters, "events": cov.events, "ops": cov.ops, "max_pos": cov.max_pos});
    std::fs::write(&a.opts["out"], serde_json::to_string(&out).unwrap()).expect("write shard output");
    0
}

fn run_batch(p: P, master: u64, runs: u64, workers: usize, thorough: bool, stop_on_violation: bool) -> Batch {
    if p == P::C16 && workers > 1 {
        return run_batch_procs(p, master, runs, workers, thorough);
    }
    let next = Arc::new(AtomicU64::new(0));
    let stop_at = Arc::new(AtomicU64::new(u64::MAX));
    let results: Arc<Mutex<Vec<Option<RunOut>>>> = Arc::new(Mutex::new((0..runs).map(|_| None).collect()));
    let total_cov = Arc::new(Mutex::new(Cov::new()));
    let mut handles = vec![];
    for _ in 0..workers {
        let next = next.clone();
        let stop_at = stop_at.clone();
        let results = results.clone();
        let total_cov = total_cov.clone();
        handles.push(std::thread::Builder::new().stack_size(16 << 20).spawn(move || {
            let mut wcov = Cov::new();
            let mut local: Vec<(u64, RunOut)> = vec![];
            loop {
                let i = next.fetch_add(1, Ordering::SeqCst);
                if i >= runs || i > stop_at.load(Ordering::SeqCst) {
                    break;
                }
                let case = gen_case(p, master, i, thorough);
                if let Some(path) = TRACE.get() {
                    // single-worker trace mode: remember which run is in flight, in case the process dies
                    let _ = std::fs::write(path, format!("{}", i));
                }
                let mut cov = Cov::new();
                let v = world_probes::execute(&case, &mut cov);
                if v.is_some() && stop_on_violation {
                    stop_at.fetch_min(i, Ordering::SeqCst);
                }
                let sample = if i < 3 { Some(brief_case(&case)) } else { None };
                // the violation is part of the run's log hash
                let mut f = util::Fnv(cov.sig);
                if let Some(v) = &v {
                    f.put(v.invariant.as_bytes());
                    f.put_u64(v.at_event as u64);
                }
                wcov.merge(&cov);
                local.push((i, RunOut { aux: cov.aux, sig: f.0, nontrivial: nontrivial(&case) && cov.ops > 0, violation: v, sample }));
                if local.len() >= 256 {
                    let mut r = results.lock().unwrap();
                    for (i, o) in local.drain(..) {
                        r[i as usize] = Some(o);
                    }
                }
            }
            let mut r = results.lock().unwrap();
            for (i, o) in local.drain(..) {
                r[i as usize] = Some(o);
            }
            total_cov.lock().unwrap().merge(&wcov);
        }).unwrap());
    }
    let mut harness_panic = false;
    for h in handles {
        if h.join().is_err() {
            harness_panic = true;
        }
    }
    if harness_panic {
        eprintln!("HARNESS ERROR: a simulator worker panicked outside the observed code");
        std::process::exit(2);
    }
    let outs = std::mem::take(&mut *results.lock().unwrap());
    let cov = total_cov.lock().unwrap().clone();
    let first = outs.iter().enumerate().find(|(_, o)| o.as_ref().map(|o| o.violation.is_some()).unwrap_or(false)).map(|(i, _)| i as u64);
    Batch { outs, cov, first_violation_run: first }
}

#[derive(serde::Deserialize, Default)]
struct KnownFile {
    #[serde(default)]
    findings: Vec<Known>,
    #[serde(default)]
    fixed: Vec<serde_json::Value>,
}
#[derive(serde::Deserialize, Clone)]
struct Known {
    property: String,
    invariant: String,
    #[serde(default)]
    observed_contains: String,
    #[serde(default)]
    expected_contains: String,
    what: String,
}
fn known_match<'a>(k: &'a [Known], v: &Violation) -> Option<&'a Known> {
    k.iter().find(|k| k.property == v.property && shrink::inv_class(&v.invariant) == k.invariant && v.observed.contains(&k.observed_contains) && v.expected.contains(&k.expected_contains))
}

fn stack_transcript() -> u64 {
    use suites::*;
    let mut f = util::Fnv::new();
    let long: Vec<u8> = (0..700u32).map(|i| (i * 7) as u8).collect();
    for kem in KEMS {
        for (kdf, aead) in [(KdfId::S256, AeadId::Aes128), (KdfId::S384, AeadId::ChaCha), (KdfId::S512, AeadId::Aes256), (KdfId::S512, AeadId::Export)] {
            let su = suite(SuiteId { kem, kdf, aead, shim: false });
            let (sk_r, pk_r) = su.derive_keypair(b"stack probe recipient").expect("derive");
            let (sk_s, pk_s) = su.derive_keypair(&long).expect("derive");
            let ms = ModeS { kind: Some(ModeKind::AuthPsk), psk: long.clone(), psk_id: long[..300].to_vec(), sk_s: sk_s.clone(), pk_s: pk_s.clone() };
            let mr = ModeR { kind: Some(ModeKind::AuthPsk), psk: long.clone(), psk_id: long[..300].to_vec(), pk_s: pk_s.clone() };
            let mut rng = shim::ScriptRng::new(&[0x42u8; 66]);
            let (enc, mut s) = su.setup_sender(&ms, &pk_r, &long, &mut rng).expect("setup_s");
            let mut r = su.setup_receiver(&mr, &sk_r, &enc, &long).expect("setup_r");
            f.put(&enc);
            if aead.seals() {
                let ct = s.seal(&long, &long[..333]).expect("seal");
                f.put(&ct);
                let pt = r.open(&ct, &long[..333]).expect("open");
                assert_eq!(pt, long);
                let mut buf = long.clone();
                let tag = s.seal_in_place(&mut buf, &long).expect("seal in place");
                r.open_in_place(&mut buf, &long, &tag).expect("open in place");
                let mut rng = shim::ScriptRng::new(&[0x43u8; 66]);
                let (enc2, ct2) = su.ss_seal(&ms, &pk_r, &long, &long, &long, &mut rng).expect("ss_seal");
                let pt2 = su.ss_open(&mr, &sk_r, &enc2, &long, &ct2, &long).expect("ss_open");
                assert_eq!(pt2, long);
            }
            for l in [0usize, 32, 255 * kdf.nh()] {
                let a = s.export(&long, l).expect("export");
                let b = r.export(&long, l).expect("export");
                assert_eq!(a, b);
                f.put(&a);
            }
            let _ = su.recode(Kind::Pk, &pk_r);
        }
    }
    f.0
}

fn silence_panics() {
    if std::env::var("HPKE_HEAP_DEBUG").is_ok() {
        heapscan::DEBUG.store(true, std::sync::atomic::Ordering::Relaxed);
    }
    std::panic::set_hook(Box::new(|info| {
        // panics inside observed calls are outcomes; harness panics are marked and reported
        let msg = info.to_string();
        if msg.contains("HARNESS") || std::env::var("HPKE_SIM_DEBUG").is_ok() {
            eprintln!("{}", msg);
        }
    }));
}

fn model_selftest() {
    if let Err(e) = refhpke::selftest() {
        eprintln!("HARNESS ERROR: refhpke self-test failed: {}", e);
        std::process::exit(2);
    }
    if let Err(e) = special::selftest() {
        eprintln!("HARNESS ERROR: special-value table self-test failed: {}", e);
        std::process::exit(2);
    }
    for k in [suites::KemId::P256, suites::KemId::P384, suites::KemId::P521] {
        if let Err(e) = math::curve(k).selftest() {
            eprintln!("HARNESS ERROR: math oracle self-test failed: {}", e);
            std::process::exit(2);
        }
    }
}

fn level_of(p: P) -> &'static str {
    match p {
        P::C06 | P::C10 => "fault_enumeration",
        _ => "exploration",
    }
}

fn cmd_run(a: &Args) -> i32 {
    let p = match a.pos.get(0).and_then(|s| P::parse(s)) {
        Some(p) => p,
        None => {
            eprintln!("usage: hpke-sim run <Cxx> ...");
            return 2;
        }
    };
    let thorough = a.opts.get("tier").map(|s| s == "thorough").unwrap_or(false);
    let master: u64 = a.opts.get("seed").and_then(|s| s.parse().ok()).unwrap_or(1);
    let scale: f64 = a.opts.get("scale").and_then(|s| s.parse().ok()).unwrap_or(1.0);
    let runs: u64 = a.opts.get("runs").and_then(|s| s.parse().ok()).unwrap_or_else(|| ((default_runs(p, thorough) as f64) * scale).max(1.0) as u64);
    let workers: usize = a.opts.get("workers").and_then(|s| s.parse().ok()).unwrap_or(16);
    let evidence = a.opts.get("evidence").cloned().unwrap_or_else(|| format!("/verif/evidence/{}.json", p.name()));
    let replay_dir = a.opts.get("replay-dir").cloned().unwrap_or_else(|| format!("/verif/replays/{}", p.name()));
    let known_path = a.opts.get("known").cloned().unwrap_or_else(|| "/verif/known_findings.json".to_string());
    let known: Vec<Known> = std::fs::read_to_string(&known_path).ok().and_then(|s| serde_json::from_str::<KnownFile>(&s).ok()).map(|k| k.findings).unwrap_or_default();
    if let Some(t) = a.opts.get("trace") {
        let _ = TRACE.set(t.clone());
    }
    println!("hpke-sim: property={} tier={} VERIF_SEED={} runs={} workers={}", p.name(), if thorough { "thorough" } else { "quick" }, master, runs, workers);
    model_selftest();
    let t0 = Instant::now();
    // Runs whose violation matches a committed known finding do not stop the batch
    let mut batch = run_batch(p, master, runs, workers, thorough, known.is_empty());
    let wall = t0.elapsed().as_secs_f64();
    let mut sigs: HashSet<u64> = HashSet::new();
    let mut evals = 0u64;
    let mut samples: Vec<String> = vec![];
    let mut known_hits: BTreeMap<String, u64> = BTreeMap::new();
    let mut fatal: Option<(u64, Violation)> = None;
    for (i, o) in batch.outs.iter().enumerate() {
        if let Some(o) = o {
            evals += 1;
            if o.nontrivial {
                sigs.insert(o.sig);
            }
            if let Some(s) = &o.sample {
                samples.push(s.clone());
            }
            if let Some(v) = &o.violation {
                if let Some(k) = known_match(&known, v) {
                    *known_hits.entry(k.what.clone()).or_insert(0) += 1;
                } else if fatal.is_none() {
                    fatal = Some((i as u64, v.clone()));
                }
            }
        }
    }
    let mut history_replay: Option<String> = None;
    if p == P::C18 && fatal.is_none() {
        if let Some((run, path)) = c18_history_check(master, runs, thorough, &batch, &replay_dir) {
            println!("violation in run {}: c18.depends-on-process-history", run);
            println!("  expected: the isolated transcript of a session is the same in every process, whatever ran before");
            println!("  observed: a fresh-order reference process computed a different transcript");
            println!("VIOLATION property=C18 replay={}", path);
            history_replay = Some(path);
        }
    }
    for (what, n) in &known_hits {
        println!("KNOWN-FINDING: property={} {} ({} runs)", p.name(), what, n);
    }
    let mut exit = 0;
    let mut violations = 0;
    let mut replay_path = String::new();
    if let Some(pth) = history_replay {
        exit = 1;
        violations = 1;
        replay_path = pth;
    }
    if let Some((run, v)) = fatal {
        violations = 1;
        exit = 1;
        let case = gen_case(p, master, run, thorough);
        let orig = case.events.len();
        let mut sh = shrink::Shrinker::new(2000, 20);
        let (mc, mv) = sh.minimise(&case, &v);
        let _ = std::fs::create_dir_all(&replay_dir);
        let inv_file: String = shrink::inv_class(&mv.invariant).chars().map(|c| if c.is_ascii_alphanumeric() || c == '-' || c == '.' { c } else { '_' }).collect();
        replay_path = format!("{}/{}-{:016x}.json", replay_dir, inv_file, case.run_seed);
        let rf = ReplayFile { harness_version: HARNESS_VERSION.into(), build_profile: a.opts.get("profile-tag").cloned().unwrap_or_default(), case: mc.clone(), violation: mv.clone(), minimised: true, original_events: orig };
        std::fs::write(&replay_path, serde_json::to_string_pretty(&rf).unwrap()).expect("write replay file");
        println!("violation in run {} (seed {:#x}): {} at event {}", run, case.run_seed, mv.invariant, mv.at_event);
        println!("  expected: {}", mv.expected);
        println!("  observed: {}", mv.observed);
        println!("  minimised {} -> {} events in {} executions", orig, mc.events.len(), sh.execs);
        for (i, e) in mc.events.iter().enumerate() {
            let d = format!("{:?}", e);
            println!("    [{}] {}", i, if d.len() > 300 { format!("{}..", &d[..300]) } else { d });
        }
        println!("VIOLATION property={} replay={}", p.name(), replay_path);
    }
    // evidence
    let cov = &mut batch.cov;
    let mut fault_fired = BTreeMap::new();
    let mut probes = BTreeMap::new();
    let mut cells = BTreeMap::new();
    for (k, v) in &cov.counters {
        if let Some(f) = k.strip_prefix("fault.") {
            fault_fired.insert(f.to_string(), *v);
        } else if let Some(f) = k.strip_prefix("probe.") {
            probes.insert(f.to_string(), *v);
        } else {
            cells.insert(k.clone(), *v);
        }
    }
    let ev = json!({
        "property_id": p.name(),
        "tier": if thorough { "thorough" } else { "quick" },
        "seed": master,
        "level": level_of(p),
        "wall_s": wall,
        "violations": violations,
        "known_findings_seen": known_hits,
        "replay": replay_path,
        "assumptions": [
            "RustCrypto primitives and curve arithmetic are trusted (used by hpke and by the reference model alike)",
            "AEAD forgeries (2^-128) and SHA-2 collisions are ignored",
            "a clean batch is evidence over the sampled schedules and fault sequences, not proof",
            "hooks (cfg hpke_verif) place and read the message counter; the overflow latch is only reached the natural way"
        ],
        "coverage": {
            "evaluations": evals,
            "distinct_nontrivial": sigs.len(),
            "rule": "one evaluation = one simulated world (seeded event list executed against the real library). A run signature is the hash of its sequence of (event kind, position class, fault kind, interface, abstract outcome); a run is non-trivial if it contains at least one oracle-relevant event beyond key generation and setup and performed at least one call into the library. distinct_nontrivial counts distinct signatures of non-trivial runs.",
            "samples": samples,
            "events": cov.events,
            "ops_on_real_code": cov.ops,
            "runs_per_hour": if wall > 0.0 { (evals as f64 / wall * 3600.0) as u64 } else { 0 },
            "logical_time": { "events": cov.events, "max_position_reached": cov.max_pos.to_string() },
            "fault_fired": fault_fired,
            "rare_probes": probes,
            "coverage_cells": { "hit": cells.len(), "cells": cells },
            "exhaustive": false,
            "model_anchors": refhpke::optional_anchors().into_iter().map(|(n, ok)| format!("{}: {}", n, if ok { "reproduced by refhpke" } else { "not reproduced (discarded)" })).collect::<Vec<_>>(),
            "components": {
                "real": ["hpke crate from /repo working tree (cfg hpke_verif hooks on, overflow-checks + debug-assertions on)", "RustCrypto aes-gcm, chacha20poly1305, hkdf, hmac, sha2, x25519-dalek, p256/p384/p521 as pinned by Cargo.lock"],
                "wrapped": ["AEAD primitive in shimmed sessions (same AEAD_ID, forwards to the real cipher, logs nonces, can inject failure)"],
                "simulated": ["wire and adversary", "key directory", "caller RNG (scripted)", "scheduler", "logical-clock jumps", "context lifecycle (teardown / restart)"],
                "models": ["ideal channel", "refhpke (independent RFC 9180 implementation, anchored on RFC 9180 A.1.1 mandatory; A.1.2 PSK and A.3.1 P-256 vectors reproduced)", "big-integer curve oracle", "X25519 small-order list"]
            }
        }
    });
    if let Some(dir) = std::path::Path::new(&evidence).parent() {
        let _ = std::fs::create_dir_all(dir);
    }
    std::fs::write(&evidence, serde_json::to_string_pretty(&ev).unwrap()).expect("write evidence");
    println!("runs={} distinct_nontrivial={} events={} ops={} wall={:.1}s max_pos={}", evals, sigs.len(), cov.events, cov.ops, wall, cov.max_pos);
    if exit == 0 {
        println!("OK property={} held on everything explored", p.name());
    }
    exit
}

fn cmd_replay(a: &Args) -> i32 {
    let path = match a.pos.get(0) {
        Some(p) => p,
        None => return 2,
    };
    if let Some(v) = std::fs::read_to_string(path).ok().and_then(|s| serde_json::from_str::<serde_json::Value>(&s).ok()) {
        if v["engine"].as_str() == Some("sim-c18-history") {
            return cmd_replay_history(path, &v);
        }
    }
    let rf: ReplayFile = match std::fs::read_to_string(path).ok().and_then(|s| serde_json::from_str(&s).ok()) {
        Some(r) => r,
        None => {
            eprintln!("HARNESS ERROR: cannot read replay file {}", path);
            return 2;
        }
    };
    model_selftest();
    let mut cov = Cov::new();
    match world_probes::execute(&rf.case, &mut cov) {
        Some(v) => {
            println!("replayed: {} at event {}", v.invariant, v.at_event);
            println!("  expected: {}", v.expected);
            println!("  observed: {}", v.observed);
            if shrink::inv_class(&v.invariant) != shrink::inv_class(&rf.violation.invariant) {
                println!("note: recorded invariant was {}", rf.violation.invariant);
            }
            println!("VIOLATION property={} replay={}", rf.case.property, path);
            1
        }
        None => {
            println!("replay of {} did not reproduce a violation ({} events)", path, rf.case.events.len());
            0
        }
    }
}

/// Writes the generated (un-minimised) case of one run as a replay file; used by the driver when
/// the simulator process itself died (abort, stack overflow) while executing that run.
fn cmd_gencase(a: &Args) -> i32 {
    let p = match a.pos.get(0).and_then(|s| P::parse(s)) {
        Some(p) => p,
        None => return 2,
    };
    let thorough = a.opts.get("tier").map(|s| s == "thorough").unwrap_or(false);
    let master: u64 = a.opts.get("seed").and_then(|s| s.parse().ok()).unwrap_or(1);
    let run: u64 = a.opts.get("run").and_then(|s| s.parse().ok()).unwrap_or(0);
    let out = a.opts.get("out").cloned().unwrap_or_else(|| "case.json".into());
    let case = gen_case(p, master, run, thorough);
    let n = case.events.len();
    let rf = ReplayFile {
        harness_version: HARNESS_VERSION.into(),
        build_profile: a.opts.get("profile-tag").cloned().unwrap_or_default(),
        case,
        violation: Violation { property: p.name().into(), invariant: "process-abort".into(), at_event: 0, expected: "every call returns a value or an HpkeError; the process never aborts".into(), observed: "the simulator process died while executing this run".into() },
        minimised: false,
        original_events: n,
    };
    std::fs::write(&out, serde_json::to_string_pretty(&rf).unwrap()).expect("write case");
    0
}

/// C18: results must not depend on earlier library calls in the same process. The main batch
/// computed every run's isolated transcripts in one long-lived multi-threaded process; reference
/// processes recompute them in the reverse run order (different process history). Any difference
/// is a dependence on hidden process-global state.
fn c18_history_check(master: u64, runs: u64, thorough: bool, batch: &Batch, replay_dir: &str) -> Option<(u64, String)> {
    let exe = std::env::current_exe().ok()?;
    let n = 16u64;
    let dir = std::env::temp_dir().join(format!("hpke-sim-c18ref-{}", std::process::id()));
    let _ = std::fs::create_dir_all(&dir);
    let mut kids = vec![];
    for k in 0..n {
        let out = dir.join(format!("ref{}.json", k));
        let child = std::process::Command::new(&exe)
            .args(["c18ref", "--seed", &master.to_string(), "--runs", &runs.to_string(), "--tier", if thorough { "thorough" } else { "quick" }, "--shard", &format!("{}/{}", k, n), "--order", "rev", "--out", out.to_str().unwrap()])
            .spawn()
            .ok()?;
        kids.push((child, out));
    }
    let mut bad: Option<u64> = None;
    for (mut child, out) in kids {
        let st = child.wait().ok()?;
        if !st.success() {
            eprintln!("HARNESS ERROR: c18 reference process failed");
            std::process::exit(2);
        }
        let v: serde_json::Value = serde_json::from_str(&std::fs::read_to_string(&out).ok()?).ok()?;
        for (k, a) in v.as_object()? {
            let i: u64 = k.parse().ok()?;
            let want = a.as_u64()?;
            if let Some(Some(o)) = batch.outs.get(i as usize) {
                if o.aux != want && bad.map(|b| i < b).unwrap_or(true) {
                    bad = Some(i);
                }
            }
        }
    }
    let _ = std::fs::remove_dir_all(&dir);
    let i = bad?;
    // minimise the history: a single earlier run j such that [j, i] in one process differs from [i] alone
    let fresh = c18ref_child(&exe, master, thorough, &[i])?;
    let mut prefix: Vec<u64> = (0..i).collect();
    for j in 0..i.min(400) {
        if let Some(v) = c18ref_child(&exe, master, thorough, &[j, i]) {
            if v != fresh {
                prefix = vec![j];
                break;
            }
        }
    }
    let _ = std::fs::create_dir_all(replay_dir);
    let path = format!("{}/c18-history-run{}.json", replay_dir, i);
    let rf = json!({"engine": "sim-c18-history", "property": "C18", "master_seed": master, "tier": if thorough { "thorough" } else { "quick" }, "run": i, "prefix_runs": prefix,
        "explanation": "executing the sessions of the prefix runs and then the sessions of `run` in one fresh process gives a different isolated transcript for `run` than executing `run` alone in a fresh process"});
    std::fs::write(&path, serde_json::to_string_pretty(&rf).unwrap()).ok()?;
    Some((i, path))
}

/// aux of the last listed run after executing the listed runs, in order, in one fresh process
fn c18ref_child(exe: &std::path::Path, master: u64, thorough: bool, only: &[u64]) -> Option<u64> {
    let list: Vec<String> = only.iter().map(|x| x.to_string()).collect();
    let out = std::process::Command::new(exe)
        .args(["c18ref", "--seed", &master.to_string(), "--tier", if thorough { "thorough" } else { "quick" }, "--only", &list.join(","), "--out", "-"])
        .output()
        .ok()?;
    let v: serde_json::Value = serde_json::from_slice(&out.stdout).ok()?;
    v.get(&only.last()?.to_string())?.as_u64()
}

fn cmd_c18ref(a: &Args) -> i32 {
    let master: u64 = a.opts.get("seed").and_then(|s| s.parse().ok()).unwrap_or(1);
    let thorough = a.opts.get("tier").map(|s| s == "thorough").unwrap_or(false);
    let mut order: Vec<u64> = vec![];
    if let Some(only) = a.opts.get("only") {
        order = only.split(',').filter_map(|x| x.parse().ok()).collect();
    } else {
        let runs: u64 = a.opts.get("runs").and_then(|s| s.parse().ok()).unwrap_or(0);
        let (k, n) = {
            let mut it = a.opts["shard"].split('/');
            (it.next().unwrap().parse::<u64>().unwrap(), it.next().unwrap().parse::<u64>().unwrap())
        };
        let mut i = k;
        while i < runs {
            order.push(i);
            i += n;
        }
        if a.opts.get("order").map(|s| s == "rev").unwrap_or(false) {
            order.reverse();
        }
    }
    let mut map = serde_json::Map::new();
    for i in order {
        let case = gen_case(P::C18, master, i, thorough);
        map.insert(i.to_string(), json!(c18::isolated_aux(&case)));
    }
    let txt = serde_json::to_string(&serde_json::Value::Object(map)).unwrap();
    match a.opts.get("out").map(|s| s.as_str()) {
        Some("-") | None => println!("{}", txt),
        Some(f) => std::fs::write(f, txt).expect("write c18ref output"),
    }
    0
}

fn cmd_replay_history(path: &str, v: &serde_json::Value) -> i32 {
    let exe = std::env::current_exe().expect("exe");
    let master = v["master_seed"].as_u64().unwrap_or(1);
    let thorough = v["tier"].as_str() == Some("thorough");
    let run = v["run"].as_u64().unwrap_or(0);
    let mut list: Vec<u64> = v["prefix_runs"].as_array().map(|a| a.iter().filter_map(|x| x.as_u64()).collect()).unwrap_or_default();
    list.push(run);
    let with_history = c18ref_child(&exe, master, thorough, &list);
    let fresh = c18ref_child(&exe, master, thorough, &[run]);
    println!("isolated transcript of run {}: after history {:?} = {:?}; in a fresh process = {:?}", run, &list[..list.len() - 1], with_history, fresh);
    if with_history != fresh {
        println!("replayed: c18.depends-on-process-history");
        println!("VIOLATION property=C18 replay={}", path);
        1
    } else {
        println!("replay did not reproduce a violation");
        0
    }
}

fn cmd_digest(a: &Args) -> i32 {
    let p = match a.pos.get(0).and_then(|s| P::parse(s)) {
        Some(p) => p,
        None => return 2,
    };
    let master: u64 = a.opts.get("seed").and_then(|s| s.parse().ok()).unwrap_or(1);
    let runs: u64 = a.opts.get("runs").and_then(|s| s.parse().ok()).unwrap_or(2000);
    let workers: usize = a.opts.get("workers").and_then(|s| s.parse().ok()).unwrap_or(16);
    let batch = run_batch(p, master, runs, workers, false, false);
    let mut f = util::Fnv::new();
    for o in batch.outs.iter() {
        let o = o.as_ref().unwrap();
        f.put_u64(o.sig);
    }
    println!("{} {:016x}", p.name(), f.0);
    0
}

fn main() {
    silence_panics();
    let a = parse_args();
    let code = match a.cmd.as_str() {
        "run" => cmd_run(&a),
        "replay" => cmd_replay(&a),
        "digest" => cmd_digest(&a),
        "shard" => cmd_shard(&a),
        "gencase" => cmd_gencase(&a),
        "zerox" => {
            // constants for c17/cfgprobe: per NIST KEM a recipient ikm and the valid encapsulated key
            // whose DH with that recipient has x-coordinate 0
            for kem in [suites::KemId::P256, suites::KemId::P384, suites::KemId::P521] {
                let ikm = b"cfgprobe zero-x recipient";
                let (sk, _, _) = refhpke::derive_keypair(kem, ikm);
                let enc = refhpke::zero_x_partner(kem, &sk).expect("partner");
                println!("{:?} {}", kem, util::hex(&enc));
            }
            // constants for the guard-independence probe of the wipes (receiver context of a fixed
            // configuration: its base nonce and exporter secret as RFC 9180 defines them)
            for kem in [suites::KemId::X25519, suites::KemId::P256, suites::KemId::P384, suites::KemId::P521] {
                let (sk, _, _) = refhpke::derive_keypair(kem, b"cfgprobe wipe recipient");
                let (_, enc, _) = refhpke::derive_keypair(kem, b"cfgprobe wipe ephemeral");
                let (ctx, _) = refhpke::setup_r(kem, suites::KdfId::S256, suites::AeadId::ChaCha, suites::ModeKind::Base, &enc, &sk, b"cfgprobe info", b"", b"", None).expect("setup");
                println!("WIPE {:?} enc={} base_nonce={} exporter_secret={}", kem, util::hex(&enc), util::hex(&ctx.base_nonce), util::hex(&ctx.exporter_secret));
            }
            0
        }
        "findspecial" => {
            let bits = a.pos.get(0).and_then(|x| x.parse().ok()).unwrap_or(24usize);
            special::find(16, bits);
            0
        }
        "findks" => {
            let what: &'static str = match a.pos.get(0).map(|s| s.as_str()) { Some("key") => "key", Some("exporter_secret") => "exporter_secret", _ => "base_nonce" };
            let trail = a.pos.get(1).map(|s| s == "trail").unwrap_or(false);
            let z = a.pos.get(2).and_then(|x| x.parse().ok()).unwrap_or(3usize);
            special::find_ks(a.pos.get(3).and_then(|x| x.parse().ok()).unwrap_or(16), z, what, trail);
            0
        }
        "findnonce" => {
            let z = a.pos.get(0).and_then(|x| x.parse().ok()).unwrap_or(3usize);
            let th = a.pos.get(1).and_then(|x| x.parse().ok()).unwrap_or(16usize);
            special::find_nonce(th, z);
            0
        }
        "findsk" => {
            let kem = match a.pos.get(0).map(|s| s.as_str()) {
                Some("P256") => suites::KemId::P256,
                Some("P384") => suites::KemId::P384,
                _ => suites::KemId::P521,
            };
            let prefix = util::unhex(a.pos.get(1).map(|s| s.as_str()).unwrap_or("0000"));
            let th = a.pos.get(2).and_then(|x| x.parse().ok()).unwrap_or(16usize);
            special::find_sk(th, kem, &prefix);
            0
        }
        "findss" => {
            let shape: &'static str = match a.pos.get(0).map(|s| s.as_str()) {
                Some("trail4zero") => "trail4zero",
                Some("every8th-zero") => "every8th-zero",
                _ => "lead4zero",
            };
            special::find_ss(a.pos.get(1).and_then(|x| x.parse().ok()).unwrap_or(16), shape);
            0
        }
        "findskweight" => {
            special::find_sk_weight(16);
            0
        }
        "stackprobe" => {
            // a fixed transcript (every KEM, Auth+PSK mode, long info / aad / exporter context) on a
            // thread with the given stack size; the process dies if that is not enough
            let kib: usize = a.pos.get(0).and_then(|x| x.parse().ok()).unwrap_or(256);
            let h = std::thread::Builder::new().stack_size(kib * 1024).spawn(stack_transcript).expect("spawn");
            match h.join() {
                Ok(d) => {
                    println!("stackprobe ok kib={} digest={:016x}", kib, d);
                    0
                }
                Err(_) => 1,
            }
        }
        "c18ref" => cmd_c18ref(&a),
        "selftest" => {
            model_selftest();
            for (n, ok) in refhpke::optional_anchors() {
                println!("optional anchor {}: {}", n, if ok { "reproduced" } else { "NOT reproduced (discarded)" });
            }
            println!("selftest ok");
            0
        }
        _ => {
            eprintln!("usage: hpke-sim run|replay|digest|selftest ...");
            2
        }
    };
    std::process::exit(code);
}
