//! The simulated world: key directory, sender / receiver contexts (real code from /repo, paired
//! with the reference model), the record store of the ideal channel, and the executor that applies
//! one event at a time and evaluates the oracles of the active property profile.

use crate::cov::{pos_class, Cov};
use crate::events::*;
use crate::math;
use crate::refhpke::{self, RefCtx};
use crate::shim::{self, ScriptRng, ShimOp};
use crate::suites::*;
use crate::util::{hex, short_hex};
use std::collections::{HashMap, HashSet};

#[derive(Clone, Copy, PartialEq, Eq, Debug)]
pub enum P {
    C01, C02, C03, C04, C05, C06, C07, C08, C09, C10, C11, C12, C13, C14, C15, C16, C18,
}
impl P {
    pub fn parse(s: &str) -> Option<P> {
        Some(match s {
            "C01" => P::C01, "C02" => P::C02, "C03" => P::C03, "C04" => P::C04, "C05" => P::C05, "C06" => P::C06,
            "C07" => P::C07, "C08" => P::C08, "C09" => P::C09, "C10" => P::C10, "C11" => P::C11, "C12" => P::C12,
            "C13" => P::C13, "C14" => P::C14, "C15" => P::C15, "C16" => P::C16, "C18" => P::C18,
            _ => return None,
        })
    }
    pub fn name(self) -> &'static str {
        match self {
            P::C01 => "C01", P::C02 => "C02", P::C03 => "C03", P::C04 => "C04", P::C05 => "C05", P::C06 => "C06",
            P::C07 => "C07", P::C08 => "C08", P::C09 => "C09", P::C10 => "C10", P::C11 => "C11", P::C12 => "C12",
            P::C13 => "C13", P::C14 => "C14", P::C15 => "C15", P::C16 => "C16", P::C18 => "C18",
        }
    }
}

/// Everything that determines the key schedule of a context. Two contexts share key material iff
/// their identities are equal.
#[derive(Clone, PartialEq, Eq, Debug)]
pub struct Ident {
    kem: KemId,
    kdf: KdfId,
    aead: AeadId,
    mode: ModeKind,
    /// recipient public key as it enters kem_context
    pub pk_r: Vec<u8>,
    enc: Vec<u8>,
    info: Vec<u8>,
    psk: Vec<u8>,
    psk_id: Vec<u8>,
    /// sender public key as it enters kem_context (raw bytes)
    pk_s_ctx: Vec<u8>,
    /// the group element actually used in the static DH (canonical form)
    pk_s_dh: Vec<u8>,
}

pub struct Key {
    pub kem: KemId,
    pub sk: Vec<u8>,
    pub pk: Vec<u8>,
}

pub struct Rec {
    pub ident: usize,
    pub seq: u64,
    pub ct: Vec<u8>, // body || tag
    pub aad: Vec<u8>,
    pub pt: Vec<u8>,
}

pub struct SC {
    pub cfg: Cfg,
    pub real: Option<Box<dyn Sender>>,
    pub twin: Option<Box<dyn Sender>>,
    pub refc: Option<RefCtx>,
    pub enc: Vec<u8>,
    pub ident: usize,
    pub recs: Vec<usize>,
    pub m_seq: u64,
    pub m_over: bool,
    pub n0: Option<Vec<u8>>,
    /// C16: where the secrets sat in the live context right after setup
    pub scan0: Option<Vec<Vec<usize>>>,
    pub aead_key: Option<Vec<u8>>,
    pub nonces: HashSet<Vec<u8>>,
    pub fail_armed: bool,
    pub exports: HashMap<(Vec<u8>, usize), Result<Vec<u8>, Fail>>,
}

pub struct RC {
    pub cfg: Cfg,
    pub real: Option<Box<dyn Receiver>>,
    pub twin: Option<Box<dyn Receiver>>,
    pub refc: Option<RefCtx>,
    pub ident: usize,
    pub m_seq: u64,
    pub m_over: bool,
    pub sk_r: Vec<u8>,
    pub enc: Vec<u8>,
    pub mode_r: ModeR,
    pub exports: HashMap<(Vec<u8>, usize), Result<Vec<u8>, Fail>>,
    pub fail_open_armed: bool,
    pub scan0: Option<Vec<Vec<usize>>>,
}

pub struct World {
    pub p: P,
    pub keys: Vec<Option<Key>>,
    pub scs: Vec<Option<SC>>,
    pub rcs: Vec<Option<RC>>,
    pub idents: Vec<Ident>,
    pub recs: Vec<Rec>,
    pub ev_idx: usize,
    /// running hash of every output the real code produced (C18 compares it across executions)
    pub tx: crate::util::Fnv,
    /// C16: fewest AeadNonce drops seen during a successful open, per opening interface
    pub nonce_drops_ok: [Option<u64>; 2],
    /// key-object scope of this world (see suites::set_key_scope)
    pub id: u64,
}

static NEXT_WORLD_ID: std::sync::atomic::AtomicU64 = std::sync::atomic::AtomicU64::new(1);

impl Drop for World {
    fn drop(&mut self) {
        crate::suites::purge_key_scope(self.id);
    }
}

pub type V = Result<(), Violation>;

fn slot<T>(v: &mut Vec<Option<T>>, i: usize) -> &mut Option<T> {
    if i >= 64 {
        // slots are small indices by construction; anything else is a malformed replay file
        panic!("slot index out of range");
    }
    while v.len() <= i {
        v.push(None);
    }
    &mut v[i]
}

pub fn any_suite(kem: KemId) -> &'static dyn Suite {
    suite(SuiteId { kem, kdf: KdfId::S256, aead: AeadId::Aes128, shim: false })
}

fn res_str<T: std::fmt::Debug>(r: &Result<T, Fail>) -> String {
    match r {
        Ok(v) => {
            let s = format!("Ok({:?})", v);
            if s.len() > 120 {
                format!("{}..", &s[..120])
            } else {
                s
            }
        }
        Err(f) => format!("Err({})", short(f)),
    }
}
fn out_class<T>(r: &Result<T, Fail>) -> String {
    match r {
        Ok(_) => "ok".into(),
        Err(Fail::Hpke(e)) => match e {
            E::IncorrectInputLength(..) => "IncorrectInputLength".into(),
            e => format!("{:?}", e),
        },
        Err(Fail::Decode(w, _)) => format!("decode-{}", w),
        Err(Fail::Panic(_)) => "panic".into(),
    }
}

impl World {
    pub fn new(p: P) -> World {
        World { p, keys: vec![], scs: vec![], rcs: vec![], idents: vec![], recs: vec![], ev_idx: 0, tx: crate::util::Fnv::new(), nonce_drops_ok: [None, None], id: NEXT_WORLD_ID.fetch_add(1, std::sync::atomic::Ordering::Relaxed) }
    }

    pub fn viol(&self, inv: &str, expected: String, observed: String) -> Violation {
        Violation { property: self.p.name().to_string(), invariant: inv.to_string(), at_event: self.ev_idx, expected, observed }
    }
    pub fn t(&mut self, b: &[u8]) {
        self.tx.put_u64(b.len() as u64);
        self.tx.put(b);
    }
    pub fn t_res(&mut self, r: &Result<Vec<u8>, Fail>) {
        match r {
            Ok(v) => {
                self.tx.put(b"ok");
                self.t(v)
            }
            Err(f) => {
                let s = short(f);
                self.tx.put(b"err");
                self.t(s.as_bytes())
            }
        }
    }
    fn is(&self, ps: &[P]) -> bool {
        ps.contains(&self.p)
    }

    fn intern(&mut self, id: Ident) -> usize {
        if let Some(i) = self.idents.iter().position(|x| *x == id) {
            return i;
        }
        self.idents.push(id);
        self.idents.len() - 1
    }

    fn key(&self, k: usize) -> Option<&Key> {
        self.keys.get(k).and_then(|x| x.as_ref())
    }

    // ------------------------------------------------------------------------------ keys

    pub fn ev_keygen(&mut self, k: usize, kem: KemId, ikm: &[u8], cov: &mut Cov) -> V {
        let r = any_suite(kem).derive_keypair(ikm);
        cov.ops += 1;
        match r {
            Ok((sk, pk)) => {
                self.t(&sk);
                self.t(&pk);
                if self.is(&[P::C02, P::C03]) {
                    self.check_derive(kem, ikm, &sk, &pk, cov)?;
                }
                *slot(&mut self.keys, k) = Some(Key { kem, sk, pk });
                Ok(())
            }
            Err(f) => Err(self.viol("keygen.no-panic", "a key pair".into(), short(&f))),
        }
    }

    fn check_derive(&self, kem: KemId, ikm: &[u8], sk: &[u8], pk: &[u8], cov: &mut Cov) -> V {
        let (rsk, rpk, counter) = refhpke::derive_keypair(kem, ikm);
        if counter > 0 {
            cov.hit("probe.nist_derive_retry");
        }
        let sk_eq = if kem == KemId::X25519 { refhpke::clamp(sk) == refhpke::clamp(&rsk) } else { sk == &rsk[..] };
        if !sk_eq {
            return Err(self.viol("derive.sk", format!("sk={} (RFC 9180 7.1.3, ikm={})", hex(&rsk), short_hex(ikm)), format!("sk={}", hex(sk))));
        }
        if pk != &rpk[..] {
            return Err(self.viol("derive.pk", format!("pk={}", hex(&rpk)), format!("pk={}", hex(pk))));
        }
        Ok(())
    }

    pub fn ev_keygen_rng(&mut self, k: usize, kem: KemId, script: &[u8], cov: &mut Cov) -> V {
        let mut rng = ScriptRng::new(script);
        let r = any_suite(kem).gen_keypair(&mut rng);
        cov.ops += 1;
        match r {
            Ok((sk, pk)) => {
                self.t(&sk);
                self.t(&pk);
                *slot(&mut self.keys, k) = Some(Key { kem, sk, pk });
                Ok(())
            }
            Err(f) => Err(self.viol("keygen.no-panic", "a key pair".into(), short(&f))),
        }
    }

    pub fn ev_key_raw(&mut self, k: usize, kem: KemId, sk: &[u8], pk: &[u8], cov: &mut Cov) -> V {
        cov.sig_event("KeyRaw", &format!("{:?}{}", kem, short_hex(&pk[..pk.len().min(6)])));
        *slot(&mut self.keys, k) = Some(Key { kem, sk: sk.to_vec(), pk: pk.to_vec() });
        Ok(())
    }

    // ------------------------------------------------------------------------------ setup

    fn canon_pk(kem: KemId, pk: &[u8]) -> Vec<u8> {
        if kem == KemId::X25519 {
            math::x25519_canon(pk)
        } else {
            pk.to_vec()
        }
    }

    fn norm_cfg(cfg: &Cfg) -> (Vec<u8>, Vec<u8>) {
        if cfg.mode.has_psk() {
            (cfg.psk.0.clone(), cfg.psk_id.0.clone())
        } else {
            (vec![], vec![])
        }
    }

    #[allow(clippy::too_many_arguments)]
    pub fn ev_setup_s(&mut self, c: usize, cfg: &Cfg, kr: usize, ks: Option<usize>, ks_pub: Option<usize>, script: &[u8], model_only: bool, cov: &mut Cov) -> V {
        let su = suite(cfg.suite);
        let kem = cfg.suite.kem;
        let (pk_r, sk_s, pk_s_claim) = {
            let kr = match self.key(kr) {
                Some(k) if k.kem == kem => k,
                _ => return Ok(()),
            };
            let (sk_s, pk_s) = if cfg.mode.has_auth() {
                let ksk = match ks.and_then(|i| self.key(i)) {
                    Some(k) if k.kem == kem => k,
                    _ => return Ok(()),
                };
                let kpub = match ks_pub {
                    Some(i) => match self.key(i) {
                        Some(k) if k.kem == kem => k,
                        _ => return Ok(()),
                    },
                    None => ksk,
                };
                (ksk.sk.clone(), kpub.pk.clone())
            } else {
                (vec![], vec![])
            };
            (kr.pk.clone(), sk_s, pk_s)
        };
        let (_, _, nsk) = kem.rfc_sizes();
        let mut ikm_e = script.to_vec();
        ikm_e.resize(nsk.max(script.len()), 0);
        ikm_e.truncate(nsk);
        let auth = if cfg.mode.has_auth() { Some((&sk_s[..], &pk_s_claim[..])) } else { None };
        // model
        let bundle_ok = !cfg.mode.has_psk() || (cfg.psk.is_empty() == cfg.psk_id.is_empty());
        let refr = if bundle_ok {
            refhpke::setup_s(kem, cfg.suite.kdf, cfg.suite.aead, cfg.mode, &pk_r, &cfg.info, &cfg.psk, &cfg.psk_id, auth, &ikm_e)
        } else {
            None
        };
        let mode = ModeS { kind: Some(cfg.mode), psk: cfg.psk.0.clone(), psk_id: cfg.psk_id.0.clone(), sk_s: sk_s.clone(), pk_s: pk_s_claim.clone() };
        let (npsk, npsk_id) = Self::norm_cfg(cfg);
        let pk_s_dh = if cfg.mode.has_auth() { refhpke::pk_of(kem, &sk_s).map(|p| Self::canon_pk(kem, &p)).unwrap_or_default() } else { vec![] };
        let mk_ident = |enc: &[u8]| Ident {
            kem,
            kdf: cfg.suite.kdf,
            aead: cfg.suite.aead,
            mode: cfg.mode,
            pk_r: pk_r.clone(),
            enc: enc.to_vec(),
            info: cfg.info.0.clone(),
            psk: npsk.clone(),
            psk_id: npsk_id.clone(),
            pk_s_ctx: if cfg.mode.has_auth() { pk_s_claim.clone() } else { vec![] },
            pk_s_dh: pk_s_dh.clone(),
        };
        *slot(&mut self.scs, c) = None;
        if model_only {
            if let Some((enc, ctx, _)) = refr {
                let ident = self.intern(mk_ident(&enc));
                *slot(&mut self.scs, c) = Some(SC { cfg: cfg.clone(), real: None, twin: None, refc: Some(ctx), enc, ident, recs: vec![], m_seq: 0, m_over: false, n0: None, aead_key: None, nonces: HashSet::new(), fail_armed: false, exports: HashMap::new(), scan0: None });
                cov.hit("setup_s.model_only");
            }
            return Ok(());
        }
        let ledger0 = ledger_all();
        shim::set_recording(cfg.suite.shim);
        let mut rng = ScriptRng::new(script);
        let real = su.setup_sender(&mode, &pk_r, &cfg.info, &mut rng);
        cov.ops += 1;
        let log = shim::take_log();
        cov.hit(&format!("setup_s.{:?}.{:?}.{}", kem, cfg.mode, out_class(&real)));
        {
            let r2: Result<Vec<u8>, Fail> = match &real {
                Ok((e, _)) => Ok(e.clone()),
                Err(f) => Err(f.clone()),
            };
            self.t_res(&r2);
        }
        cov.sig_event("SetupS", &format!("{:?}{:?}{:?}{}", kem, cfg.suite.aead, cfg.mode, out_class(&real)));
        // outcome law
        match &real {
            Err(Fail::Panic(m)) => return Err(self.viol("setup_s.no-panic", "Ok or Err(EncapError)".into(), format!("panic: {}", m))),
            Err(Fail::Decode(..)) => return Ok(()), // an argument was not even decodable: no call happened
            Err(Fail::Hpke(e)) => {
                if *e != E::EncapError {
                    return Err(self.viol("setup_s.error-kind", "sender setup fails only with EncapError".into(), format!("{:?}", e)));
                }
                if self.is(&[P::C10, P::C13, P::C14, P::C02, P::C03, P::C01, P::C18]) && refr.is_some() && bundle_ok {
                    return Err(self.viol("setup_s.spurious-failure", "Ok (no DH result is zero)".into(), "Err(EncapError)".into()));
                }
                cov.hit("setup_s.encap_error");
                if self.p == P::C16 {
                    self.check_ledger_clean(&ledger0, "setup_s(failed)")?;
                }
                return Ok(());
            }
            Ok(_) => {}
        }
        let (enc, ctx) = real.unwrap();
        if refr.is_none() && bundle_ok && self.is(&[P::C10, P::C13, P::C14, P::C02, P::C03, P::C01, P::C18]) {
            return Err(self.viol("setup_s.zero-dh-accepted", "Err(EncapError): a Diffie-Hellman result is all-zero".into(), format!("Ok(enc={})", hex(&enc))));
        }
        if self.is(&[P::C02, P::C03, P::C14, P::C18]) {
            let want_bytes = nsk;
            if rng.total_bytes() != want_bytes {
                return Err(self.viol("setup_s.rng-draws", format!("exactly Nsk = {} bytes drawn from the caller\'s RNG", want_bytes), format!("{} bytes: {:?}", rng.total_bytes(), rng.draws)));
            }
        }
        let mut aead_key = None;
        for op in &log {
            if let ShimOp::NewKey(k) = op {
                aead_key = Some(k.clone());
            }
        }
        let (refc, ref_enc) = match refr {
            Some((e, c, _)) => (Some(c), Some(e)),
            None => (None, None),
        };
        if self.is(&[P::C02, P::C15]) {
            if let Some(re) = &ref_enc {
                if *re != enc {
                    return Err(self.viol("setup_s.enc", format!("enc={} (RFC 9180 SetupS with skE=DeriveKeyPair(rng bytes))", hex(re)), format!("enc={}", hex(&enc))));
                }
            }
        }
        if self.p == P::C16 {
            self.check_ledger_setup(&ledger0, cfg, "setup_s")?;
        }
        let ident = self.intern(mk_ident(&enc));
        // C14: a lock-step twin built from the same inputs and the same RNG script
        let twin = if self.p == P::C14 {
            let mut rng2 = ScriptRng::new(script);
            match su.setup_sender(&mode, &pk_r, &cfg.info, &mut rng2) {
                Ok((enc2, t)) => {
                    if enc2 != enc {
                        return Err(self.viol("twin.setup_s.enc", format!("same enc for same inputs: {}", hex(&enc)), hex(&enc2)));
                    }
                    Some(t)
                }
                Err(f) => return Err(self.viol("twin.setup_s", "same outcome for same inputs".into(), short(&f))),
            }
        } else {
            None
        };
        let scan0 = if self.p == P::C16 { Some(ctx.peek(&crate::world_ops::pats_of_pub(refc.as_ref()))) } else { None };
        *slot(&mut self.scs, c) = Some(SC { cfg: cfg.clone(), real: Some(ctx), twin, refc, enc, ident, recs: vec![], m_seq: 0, m_over: false, n0: None, aead_key, nonces: HashSet::new(), fail_armed: false, exports: HashMap::new(), scan0 });
        Ok(())
    }

    pub fn resolve_enc(&self, kem: KemId, src: &EncSrc) -> Option<Vec<u8>> {
        match src {
            EncSrc::Raw(b) => Some(b.0.clone()),
            EncSrc::Of(c) => self.scs.get(*c).and_then(|x| x.as_ref()).map(|s| s.enc.clone()),
            EncSrc::OfFlip(c, bit) => {
                let mut e = self.scs.get(*c).and_then(|x| x.as_ref()).map(|s| s.enc.clone())?;
                if e.is_empty() {
                    return None;
                }
                let b = bit % (e.len() * 8);
                e[b / 8] ^= 1 << (b % 8);
                Some(e)
            }
            EncSrc::OfTwin(c) => {
                let e = self.scs.get(*c).and_then(|x| x.as_ref()).map(|s| s.enc.clone())?;
                if kem == KemId::X25519 {
                    Some(math::x25519_twin(&e))
                } else {
                    None
                }
            }
        }
    }

    pub fn ev_setup_r(&mut self, c: usize, cfg: &Cfg, kr: usize, ks: Option<usize>, encsrc: &EncSrc, model_only: bool, cov: &mut Cov) -> V {
        let su = suite(cfg.suite);
        let kem = cfg.suite.kem;
        let sk_r = match self.key(kr) {
            Some(k) if k.kem == kem => k.sk.clone(),
            _ => return Ok(()),
        };
        let pk_s = if cfg.mode.has_auth() {
            match ks.and_then(|i| self.key(i)) {
                Some(k) if k.kem == kem => k.pk.clone(),
                _ => return Ok(()),
            }
        } else {
            vec![]
        };
        let enc = match self.resolve_enc(kem, encsrc) {
            Some(e) => e,
            None => return Ok(()),
        };
        let bundle_ok = !cfg.mode.has_psk() || (cfg.psk.is_empty() == cfg.psk_id.is_empty());
        let refr = if bundle_ok {
            refhpke::setup_r(kem, cfg.suite.kdf, cfg.suite.aead, cfg.mode, &enc, &sk_r, &cfg.info, &cfg.psk, &cfg.psk_id, if cfg.mode.has_auth() { Some(&pk_s[..]) } else { None })
        } else {
            None
        };
        let mode = ModeR { kind: Some(cfg.mode), psk: cfg.psk.0.clone(), psk_id: cfg.psk_id.0.clone(), pk_s: pk_s.clone() };
        let (npsk, npsk_id) = Self::norm_cfg(cfg);
        let pk_r = refhpke::pk_of(kem, &sk_r).unwrap_or_default();
        let ident_v = Ident {
            kem,
            kdf: cfg.suite.kdf,
            aead: cfg.suite.aead,
            mode: cfg.mode,
            pk_r,
            enc: enc.clone(),
            info: cfg.info.0.clone(),
            psk: npsk,
            psk_id: npsk_id,
            pk_s_ctx: if cfg.mode.has_auth() { pk_s.clone() } else { vec![] },
            pk_s_dh: if cfg.mode.has_auth() { Self::canon_pk(kem, &pk_s) } else { vec![] },
        };
        *slot(&mut self.rcs, c) = None;
        if model_only {
            if let Some((ctx, _)) = refr {
                let ident = self.intern(ident_v);
                *slot(&mut self.rcs, c) = Some(RC { cfg: cfg.clone(), real: None, twin: None, refc: Some(ctx), ident, m_seq: 0, m_over: false, sk_r, enc, mode_r: mode, exports: HashMap::new(), fail_open_armed: false, scan0: None });
                cov.hit("setup_r.model_only");
            }
            return Ok(());
        }
        let ledger0 = ledger_all();
        shim::set_recording(cfg.suite.shim);
        let real = su.setup_receiver(&mode, &sk_r, &enc, &cfg.info);
        cov.ops += 1;
        let _ = shim::take_log();
        cov.hit(&format!("setup_r.{:?}.{:?}.{}", kem, cfg.mode, out_class(&real)));
        {
            let r2: Result<Vec<u8>, Fail> = match &real {
                Ok(_) => Ok(vec![]),
                Err(f) => Err(f.clone()),
            };
            self.t_res(&r2);
        }
        cov.sig_event("SetupR", &format!("{:?}{:?}{:?}{}", kem, cfg.suite.aead, cfg.mode, out_class(&real)));
        match &real {
            Err(Fail::Panic(m)) => return Err(self.viol("setup_r.no-panic", "Ok or Err(DecapError)".into(), format!("panic: {}", m))),
            Err(Fail::Decode(..)) => return Ok(()),
            Err(Fail::Hpke(e)) => {
                if *e != E::DecapError {
                    return Err(self.viol("setup_r.error-kind", "receiver setup fails only with DecapError".into(), format!("{:?}", e)));
                }
                if self.is(&[P::C10, P::C13, P::C14, P::C02, P::C03, P::C01, P::C18]) && refr.is_some() && bundle_ok {
                    return Err(self.viol("setup_r.spurious-failure", "Ok (no DH result is zero)".into(), "Err(DecapError)".into()));
                }
                cov.hit("setup_r.decap_error");
                if self.p == P::C16 {
                    self.check_ledger_clean(&ledger0, "setup_r(failed)")?;
                }
                return Ok(());
            }
            Ok(_) => {}
        }
        let ctx = real.unwrap();
        if refr.is_none() && bundle_ok && self.is(&[P::C10, P::C13, P::C14, P::C02, P::C03, P::C01, P::C18]) {
            return Err(self.viol("setup_r.zero-dh-accepted", "Err(DecapError): a Diffie-Hellman result is all-zero".into(), "Ok(context)".into()));
        }
        if self.p == P::C16 {
            self.check_ledger_setup(&ledger0, cfg, "setup_r")?;
        }
        let twin = if self.p == P::C14 {
            match su.setup_receiver(&mode, &sk_r, &enc, &cfg.info) {
                Ok(t) => Some(t),
                Err(f) => return Err(self.viol("twin.setup_r", "same outcome for same inputs".into(), short(&f))),
            }
        } else {
            None
        };
        let ident = self.intern(ident_v);
        let refc_r = refr.map(|x| x.0);
        let scan0 = if self.p == P::C16 { Some(ctx.peek(&crate::world_ops::pats_of_pub(refc_r.as_ref()))) } else { None };
        *slot(&mut self.rcs, c) = Some(RC { cfg: cfg.clone(), real: Some(ctx), twin, refc: refc_r, ident, m_seq: 0, m_over: false, sk_r, enc, mode_r: mode, exports: HashMap::new(), fail_open_armed: false, scan0 });
        Ok(())
    }

    // ------------------------------------------------------------------------------ ledger (C16)

    fn check_ledger_clean(&self, before: &[(u64, u64); 4], what: &str) -> V {
        let after = ledger_all();
        for k in 0..4 {
            if after[k].1 != before[k].1 {
                return Err(self.viol("drop.ledger-dirty", format!("{}: every dropped {} buffer is all-zero", what, LEDGER_NAMES[k]), format!("{} drop(s) left non-zero bytes", after[k].1 - before[k].1)));
            }
        }
        Ok(())
    }

    fn check_ledger_setup(&self, before: &[(u64, u64); 4], cfg: &Cfg, what: &str) -> V {
        self.check_ledger_clean(before, what)?;
        let after = ledger_all();
        // the temporary AEAD key buffer and the KEM shared secret must have been dropped (and wiped)
        // by the time setup returns
        if after[0].0 - before[0].0 < 1 {
            return Err(self.viol("drop.aead-key-not-dropped", format!("{}: temporary AEAD key buffer wiped before setup returns", what), "no AeadKey drop recorded".into()));
        }
        if after[3].0 - before[3].0 < 1 {
            return Err(self.viol("drop.shared-secret-not-dropped", format!("{}: KEM shared secret wiped before setup returns", what), "no SharedSecret drop recorded".into()));
        }
        let _ = cfg;
        Ok(())
    }
}

pub const LEDGER_NAMES: [&str; 4] = ["AeadKey", "AeadNonce", "ExporterSecret", "SharedSecret"];

pub fn ledger_all() -> [(u64, u64); 4] {
    [hpke::verif::ledger(0), hpke::verif::ledger(1), hpke::verif::ledger(2), hpke::verif::ledger(3)]
}

pub fn _unused(_: &str) -> &'static str {
    pos_class(0, false)
}
