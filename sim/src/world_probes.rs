//! World, part 3: stateless probes, single-shot comparison, and the event dispatcher.

use crate::cov::Cov;
use crate::events::*;
use crate::math::{self, PubVerdict};
use crate::refhpke;
use crate::shim::ScriptRng;
use crate::suites::*;
use crate::util::{hex, short_hex};
use crate::world::*;
use crate::world_ops::{out_class_s, res_s};

impl World {
    // ------------------------------------------------------------------------------ single shot (C14)

    #[allow(clippy::too_many_arguments)]
    pub fn ev_single_shot_seal(&mut self, c: usize, cfg: &Cfg, kr: usize, ks: Option<usize>, ks_pub: Option<usize>, script: &[u8], pt: &[u8], aad: &[u8], inplace: bool, cov: &mut Cov) -> V {
        let kem = cfg.suite.kem;
        let su = suite(cfg.suite);
        let pk_r = match self.keys.get(kr).and_then(|x| x.as_ref()) {
            Some(k) if k.kem == kem => k.pk.clone(),
            _ => return Ok(()),
        };
        let (sk_s, mut pk_s) = if cfg.mode.has_auth() {
            match ks.and_then(|i| self.keys.get(i)).and_then(|x| x.as_ref()) {
                Some(k) if k.kem == kem => (k.sk.clone(), k.pk.clone()),
                _ => return Ok(()),
            }
        } else {
            (vec![], vec![])
        };
        if cfg.mode.has_auth() {
            if let Some(kp) = ks_pub.and_then(|i| self.keys.get(i)).and_then(|x| x.as_ref()) {
                if kp.kem == kem {
                    pk_s = kp.pk.clone();
                }
            }
        }
        let mode = ModeS { kind: Some(cfg.mode), psk: cfg.psk.0.clone(), psk_id: cfg.psk_id.0.clone(), sk_s, pk_s };
        let mut rng = ScriptRng::new(script);
        // A: the single-shot form
        let mut ss_buf = pt.to_vec();
        let a: Res<(Vec<u8>, Vec<u8>)> = if inplace {
            su.ss_seal_in_place(&mode, &pk_r, &cfg.info, &mut ss_buf, aad, &mut rng).map(|(enc, mut ct, tag)| {
                ct.extend_from_slice(&tag);
                (enc, ct)
            })
        } else {
            su.ss_seal(&mode, &pk_r, &cfg.info, pt, aad, &mut rng)
        };
        cov.ops += 1;
        cov.hit(&format!("single_shot_seal.{}.{}", if inplace { "inplace" } else { "alloc" }, out_class_s(&a)));
        cov.sig_event("SingleShotSeal", &out_class_s(&a));
        // B: the composed form. First only its setup, to learn the exact error it gives, if any
        let mut rng_b = ScriptRng::new(script);
        let b_setup: Result<(), Fail> = su.setup_sender(&mode, &pk_r, &cfg.info, &mut rng_b).map(|_| ());
        // "with the same randomness": both forms take exactly the same bytes from the caller's RNG,
        // whether they succeed or fail (the caller's next draw depends on it)
        if !matches!(a, Err(Fail::Panic(_)) | Err(Fail::Decode(..))) && !matches!(b_setup, Err(Fail::Panic(_)) | Err(Fail::Decode(..))) && rng.total_bytes() != rng_b.total_bytes() {
            return Err(self.viol(
                "single-shot.seal.rng-draws-equal-composed",
                format!("{} bytes drawn from the caller's RNG, as setup_sender draws ({})", rng_b.total_bytes(), out_class_s(&b_setup)),
                format!("{} bytes: {:?} ({})", rng.total_bytes(), rng.draws, out_class_s(&a)),
            ));
        }
        if let Err(fb) = &b_setup {
            // setup_sender fails: the single-shot form must fail in exactly the same way, and - as in
            // the composed form, where sealing is never reached - leave the caller's message alone
            if inplace && matches!(fb, Fail::Hpke(_)) && ss_buf != pt {
                return Err(self.viol("single-shot.seal.buffer-untouched-when-setup-fails", format!("message buffer unchanged ({}): the composed form fails in setup_sender and never touches it", short_hex(pt)), short_hex(&ss_buf)));
            }
            match &a {
                Err(fa) if fa == fb => {}
                other => {
                    let got = match other {
                        Ok((e, _)) => format!("Ok(enc={})", hex(e)),
                        Err(f) => format!("Err({})", short(f)),
                    };
                    return Err(self.viol("single-shot.seal.error-equals-composed", format!("Err({}) as setup_sender gives", short(fb)), got));
                }
            }
        }
        // ... then through the world, which also registers context c and its one record
        self.ev_setup_s(c, cfg, kr, ks, ks_pub, script, false, cov)?;
        let have_ctx = self.scs.get(c).and_then(|x| x.as_ref()).map(|s| s.real.is_some()).unwrap_or(false);
        if !cfg.suite.aead.seals() {
            return match a {
                Err(Fail::Panic(_)) if have_ctx => Ok(()),
                Err(Fail::Hpke(E::EncapError)) | Err(Fail::Decode(..)) if !have_ctx => Ok(()),
                other => Err(self.viol("export-only.single-shot-seal-must-panic", "panic".into(), format!("{:?}", other.map(|x| hex(&x.0))))),
            };
        }
        if have_ctx {
            self.ev_seal(c, pt, aad, inplace, cov)?;
        }
        let b: Option<(Vec<u8>, Vec<u8>)> = self.scs.get(c).and_then(|x| x.as_ref()).and_then(|s| s.recs.last().map(|i| (s.enc.clone(), self.recs[*i].ct.clone())));
        match (&a, &b) {
            (Ok((ea, ca)), Some((eb, cb))) => {
                if ea != eb {
                    return Err(self.viol("single-shot.seal.enc", format!("enc of setup_sender with the same randomness: {}", hex(eb)), hex(ea)));
                }
                if ca != cb {
                    return Err(self.viol("single-shot.seal.ct", format!("setup_sender + seal: {}", short_hex(cb)), short_hex(ca)));
                }
                let want_bytes = kem.rfc_sizes().2;
                if rng.total_bytes() != want_bytes {
                    return Err(self.viol("single-shot.seal.rng-draws", format!("exactly Nsk = {} bytes drawn from the caller\'s RNG", want_bytes), format!("{} bytes: {:?}", rng.total_bytes(), rng.draws)));
                }
            }
            (Ok((ea, _)), None) => return Err(self.viol("single-shot.seal.outcome", "the composed form failed, so must single-shot".into(), format!("Ok(enc={})", hex(ea)))),
            (Err(f), Some(_)) => return Err(self.viol("single-shot.seal.outcome", "Ok, as the composed form".into(), short(f))),
            (Err(Fail::Panic(m)), None) => return Err(self.viol("single-shot.seal.no-panic", "an error".into(), m.clone())),
            (Err(_), None) => {}
        }
        Ok(())
    }

    #[allow(clippy::too_many_arguments)]
    pub fn ev_single_shot_open_raw(&mut self, cfg: &Cfg, kr: usize, ks: Option<usize>, encsrc: &EncSrc, ct: &[u8], aad: &[u8], tag: Option<&[u8]>, cov: &mut Cov) -> V {
        let kem = cfg.suite.kem;
        let su = suite(cfg.suite);
        let sk_r = match self.keys.get(kr).and_then(|x| x.as_ref()) {
            Some(k) if k.kem == kem => k.sk.clone(),
            _ => return Ok(()),
        };
        let pk_s = if cfg.mode.has_auth() {
            match ks.and_then(|i| self.keys.get(i)).and_then(|x| x.as_ref()) {
                Some(k) if k.kem == kem => k.pk.clone(),
                _ => return Ok(()),
            }
        } else {
            vec![]
        };
        let enc = match self.resolve_enc(kem, encsrc) {
            Some(e) => e,
            None => return Ok(()),
        };
        if !cfg.suite.aead.seals() {
            return Ok(());
        }
        let mode = ModeR { kind: Some(cfg.mode), psk: cfg.psk.0.clone(), psk_id: cfg.psk_id.0.clone(), pk_s: pk_s.clone() };
        // A: single shot
        let a: Res<Vec<u8>> = match tag {
            None => su.ss_open(&mode, &sk_r, &enc, &cfg.info, ct, aad),
            Some(t) => su.ss_open_in_place(&mode, &sk_r, &enc, &cfg.info, &mut ct.to_vec(), aad, t),
        };
        // B: composed
        let b: Res<Vec<u8>> = match su.setup_receiver(&mode, &sk_r, &enc, &cfg.info) {
            Err(f) => Err(f),
            Ok(mut r) => match tag {
                None => r.open(ct, aad),
                Some(t) => {
                    let mut buf = ct.to_vec();
                    r.open_in_place(&mut buf, aad, t).map(|_| buf)
                }
            },
        };
        cov.ops += 2;
        self.t_res(&a);
        cov.hit(&format!("single_shot_open_raw.{}.{}", if tag.is_some() { "inplace" } else { "alloc" }, out_class_s(&a)));
        cov.sig_event("SingleShotOpenRaw", &format!("{:?}{:?}{}", kem, cfg.mode, out_class_s(&a)));
        if let Err(Fail::Panic(m)) = &a {
            return Err(self.viol("single-shot.open.no-panic", "a value or an error".into(), m.clone()));
        }
        // a tag of the wrong size is rejected by the caller-side decoding in both forms, but the
        // order of decoding differs between the forms only in which argument is reported first
        let same = match (&a, &b) {
            (Err(Fail::Decode(..)), Err(Fail::Decode(..))) => true,
            // a detached tag of the wrong size is refused by AeadTag::from_bytes on the caller's
            // side, before either form is entered: nothing to compare
            (Err(Fail::Decode(w, _)), _) | (_, Err(Fail::Decode(w, _))) if w == "tag" => true,
            _ => a == b,
        };
        if !same {
            return Err(self.viol("single-shot.open.equals-composed", format!("setup_receiver + open: {}", res_s(&b)), res_s(&a)));
        }
        let bundle_ok = !cfg.mode.has_psk() || (cfg.psk.is_empty() == cfg.psk_id.is_empty());
        if bundle_ok && !matches!(a, Err(Fail::Decode(..))) {
            let refr = refhpke::setup_r(kem, cfg.suite.kdf, cfg.suite.aead, cfg.mode, &enc, &sk_r, &cfg.info, &cfg.psk, &cfg.psk_id, if cfg.mode.has_auth() { Some(&pk_s[..]) } else { None });
            match (&refr, &a) {
                (None, Err(Fail::Hpke(E::DecapError))) => cov.hit("probe.single_shot_open_zero_dh"),
                (None, other) => return Err(self.viol("single-shot.open.zero-dh", "Err(DecapError): a Diffie-Hellman result is all-zero".into(), res_s(other))),
                (Some(_), Err(Fail::Hpke(E::DecapError))) => return Err(self.viol("single-shot.open.spurious-decap-error", "no DecapError: no DH result is zero".into(), "Err(DecapError)".into())),
                _ => {}
            }
        }
        Ok(())
    }

    // ------------------------------------------------------------------------------ C03 probes

    pub fn ev_derive_probe(&mut self, kem: KemId, ikm: &[u8], cov: &mut Cov) -> V {
        let su = any_suite(kem);
        let r = su.derive_keypair(ikm);
        cov.ops += 1;
        let (sk, pk) = match r {
            Ok(x) => x,
            Err(f) => return Err(self.viol("derive.no-panic", "a key pair".into(), short(&f))),
        };
        cov.hit(&format!("derive.{:?}.len{}", kem, len_class(ikm.len())));
        cov.sig_event("Derive", &format!("{:?}{}", kem, len_class(ikm.len())));
        if self.p == P::C03 || self.p == P::C02 {
            self.check_derive_pub(kem, ikm, &sk, &pk, cov)?;
            // pk is the public key of sk
            match su.sk_to_pk(&sk) {
                Ok(p2) if p2 == pk => {}
                other => return Err(self.viol("derive.sk_to_pk", format!("pk(sk) = {}", hex(&pk)), format!("{:?}", other.map(|x| hex(&x))))),
            }
            // deterministic
            match su.derive_keypair(ikm) {
                Ok((s2, p2)) if s2 == sk && p2 == pk => {}
                _ => return Err(self.viol("derive.deterministic", "same key pair for the same ikm".into(), "different".into())),
            }
        }
        Ok(())
    }

    fn check_derive_pub(&self, kem: KemId, ikm: &[u8], sk: &[u8], pk: &[u8], cov: &mut Cov) -> V {
        let (rsk, rpk, counter) = refhpke::derive_keypair(kem, ikm);
        if counter > 0 {
            cov.hit("probe.nist_derive_retry");
        }
        let sk_eq = if kem == KemId::X25519 { refhpke::clamp(sk) == refhpke::clamp(&rsk) } else { sk == &rsk[..] };
        if !sk_eq {
            return Err(self.viol("derive.sk", format!("sk={} (RFC 9180 7.1.3 DeriveKeyPair, ikm={})", hex(&rsk), short_hex(ikm)), format!("sk={}", hex(sk))));
        }
        if pk != &rpk[..] {
            return Err(self.viol("derive.pk", format!("pk={}", hex(&rpk)), format!("pk={}", hex(pk))));
        }
        Ok(())
    }

    pub fn ev_gen_probe(&mut self, kem: KemId, script: &[u8], cov: &mut Cov) -> V {
        let su = any_suite(kem);
        let mut rng = ScriptRng::new(script);
        let r = su.gen_keypair(&mut rng);
        cov.ops += 1;
        let (sk, pk) = match r {
            Ok(x) => x,
            Err(f) => return Err(self.viol("gen.no-panic", "a key pair".into(), short(&f))),
        };
        let nsk = kem.rfc_sizes().2;
        cov.hit(&format!("gen.{:?}", kem));
        cov.sig_event("Gen", &format!("{:?}{}", kem, script.len().min(nsk + 1)));
        let want_bytes = nsk;
        if rng.total_bytes() != want_bytes {
            return Err(self.viol("gen.rng-draws", format!("exactly Nsk = {} bytes drawn from the caller\'s RNG", want_bytes), format!("{} bytes: {:?}", rng.total_bytes(), rng.draws)));
        }
        let mut ikm = script.to_vec();
        ikm.resize(nsk.max(script.len()), 0);
        ikm.truncate(nsk);
        self.check_derive_pub(kem, &ikm, &sk, &pk, cov)
    }

    pub fn ev_kem_probe(&mut self, kem: KemId, kr: usize, ks: Option<usize>, script: &[u8], cov: &mut Cov) -> V {
        let su = any_suite(kem);
        let (sk_r, pk_r) = match self.keys.get(kr).and_then(|x| x.as_ref()) {
            Some(k) if k.kem == kem => (k.sk.clone(), k.pk.clone()),
            _ => return Ok(()),
        };
        let sender: Option<(Vec<u8>, Vec<u8>)> = match ks {
            Some(i) => match self.keys.get(i).and_then(|x| x.as_ref()) {
                Some(k) if k.kem == kem => Some((k.sk.clone(), k.pk.clone())),
                _ => return Ok(()),
            },
            None => None,
        };
        let nsk = kem.rfc_sizes().2;
        let mut ikm_e = script.to_vec();
        ikm_e.resize(nsk.max(script.len()), 0);
        ikm_e.truncate(nsk);
        let sref = sender.as_ref().map(|(a, b)| (&a[..], &b[..]));
        let mut rng = ScriptRng::new(script);
        let c16 = self.p == P::C16;
        let led0 = ledger_all();
        let (real, scan1) = if c16 {
            match su.encap_scan(&pk_r, sref, &mut rng) {
                Ok((ss, scan)) => (Ok((ss, vec![])), Some(scan)),
                Err(f) => (Err(f), None),
            }
        } else {
            (su.encap(&pk_r, sref, &mut rng), None)
        };
        cov.ops += 1;
        cov.hit(&format!("kem.encap.{:?}.{}.{}", kem, if ks.is_some() { "auth" } else { "plain" }, out_class_s(&real)));
        cov.sig_event("Encap", &format!("{:?}{}{}", kem, ks.is_some(), out_class_s(&real)));
        let (sk_e, pk_e, _) = refhpke::derive_keypair(kem, &ikm_e);
        let refr = refhpke::encap_with(kem, &pk_r, &sk_e, &pk_e, sref);
        match (&real, &refr) {
            (Err(Fail::Panic(m)), _) => return Err(self.viol("encap.no-panic", "value or EncapError".into(), m.clone())),
            (Err(Fail::Decode(what, e)), _) => {
                // a key the curve oracle calls valid must be usable (NIST; X25519 accepts everything)
                if kem.is_nist() {
                    let cv = math::curve(kem);
                    let bad_pk = cv.valid_public(&pk_r) != PubVerdict::Valid;
                    let bad_s = sender.as_ref().map(|(a, b)| cv.valid_private(a) != PubVerdict::Valid || cv.valid_public(b) != PubVerdict::Valid).unwrap_or(false);
                    if !bad_pk && !bad_s {
                        return Err(self.viol("encap.valid-key-rejected", "Ok: recipient public key and sender identity key pair are valid".into(), format!("{} rejected: {:?}", what, e)));
                    }
                }
                return Ok(());
            }
            (Err(Fail::Hpke(E::EncapError)), None) => {
                cov.hit("probe.encap_zero_dh");
                return Ok(());
            }
            (Err(Fail::Hpke(e)), _) => return Err(self.viol("encap.outcome", format!("{}", if refr.is_some() { "Ok" } else { "Err(EncapError)" }), format!("{:?}", e))),
            (Ok(_), None) => return Err(self.viol("encap.zero-dh-accepted", "Err(EncapError)".into(), "Ok".into())),
            (Ok((ss, enc)), Some((rss, renc))) => {
                if c16 {
                    let scan = scan1.unwrap();
                    self.check_ss_scan(&scan, &led0, "encap", cov)?;
                } else if self.p == P::C03 || self.p == P::C02 {
                    if ss != rss {
                        return Err(self.viol(if ks.is_some() { "auth-encap.shared-secret" } else { "encap.shared-secret" }, format!("RFC 9180 4.1 shared_secret = {}", hex(rss)), hex(ss)));
                    }
                    if enc != renc {
                        return Err(self.viol("encap.enc", format!("enc = pk(DeriveKeyPair(rng bytes)) = {}", hex(renc)), hex(enc)));
                    }
                    let want_bytes = nsk;
                    if rng.total_bytes() != want_bytes {
                        return Err(self.viol("encap.rng-draws", format!("exactly Nsk = {} bytes drawn from the caller\'s RNG", want_bytes), format!("{} bytes: {:?}", rng.total_bytes(), rng.draws)));
                    }
                }
            }
        }
        // decap side
        let enc = refr.as_ref().unwrap().1.clone();
        let pk_s = sender.as_ref().map(|(_, b)| &b[..]);
        let led1 = ledger_all();
        let (dreal, scan2) = if c16 {
            match su.decap_scan(&sk_r, pk_s, &enc) {
                Ok((ss, scan)) => (Ok(ss), Some(scan)),
                Err(f) => (Err(f), None),
            }
        } else {
            (su.decap(&sk_r, pk_s, &enc), None)
        };
        cov.ops += 1;
        cov.hit(&format!("kem.decap.{:?}.{}.{}", kem, if ks.is_some() { "auth" } else { "plain" }, out_class_s(&dreal)));
        let dref = refhpke::decap(kem, &enc, &sk_r, pk_s);
        match (&dreal, &dref) {
            (Err(Fail::Panic(m)), _) => return Err(self.viol("decap.no-panic", "value or DecapError".into(), m.clone())),
            (Err(Fail::Decode(what, e)), _) => {
                if kem.is_nist() {
                    let cv = math::curve(kem);
                    if cv.valid_private(&sk_r) == PubVerdict::Valid && pk_s.map(|p| cv.valid_public(p) == PubVerdict::Valid).unwrap_or(true) && cv.valid_public(&enc) == PubVerdict::Valid {
                        return Err(self.viol("decap.valid-key-rejected", "Ok: recipient private key, encapsulated key and sender key are valid".into(), format!("{} rejected: {:?}", what, e)));
                    }
                }
            }
            (Err(Fail::Hpke(E::DecapError)), None) => cov.hit("probe.decap_zero_dh"),
            (Err(Fail::Hpke(e)), _) => return Err(self.viol("decap.outcome", format!("{}", if dref.is_some() { "Ok" } else { "Err(DecapError)" }), format!("{:?}", e))),
            (Ok(_), None) => return Err(self.viol("decap.zero-dh-accepted", "Err(DecapError)".into(), "Ok".into())),
            (Ok(ss), Some(rss)) => {
                if c16 {
                    self.check_ss_scan(&scan2.unwrap(), &led1, "decap", cov)?;
                } else if (self.p == P::C03 || self.p == P::C02) && ss != rss {
                    return Err(self.viol(if ks.is_some() { "auth-decap.shared-secret" } else { "decap.shared-secret" }, format!("RFC 9180 4.1 shared_secret = {}", hex(rss)), hex(ss)));
                }
            }
        }
        Ok(())
    }

    fn check_ss_scan(&self, scan: &Scan, before: &[(u64, u64); 4], what: &str, cov: &mut Cov) -> V {
        let after = ledger_all();
        if after[3].1 != before[3].1 {
            return Err(self.viol("drop.ledger-dirty", format!("{}: dropped SharedSecret is all-zero", what), "non-zero bytes left".into()));
        }
        if after[3].0 - before[3].0 < 1 {
            return Err(self.viol("drop.not-run", format!("{}: dropping the SharedSecret wipes it", what), "no drop recorded".into()));
        }
        if scan.heap_hits & 1 != 0 {
            return Err(self.viol("drop.shared_secret-left-in-freed-heap-memory", format!("{}: no heap block freed by dropping the SharedSecret still holds it", what), "found in a block at the moment it was freed".into()));
        }
        if !scan.observed(0) {
            cov.hit("teardown.unobservable.shared_secret");
            return Ok(());
        }
        cov.hit("teardown.observed.shared_secret");
        if scan.survived(0) {
            return Err(self.viol("drop.shared_secret-still-in-memory", format!("{}: shared secret gone from its {}-byte slot after drop", what, scan.size), "still present".into()));
        }
        Ok(())
    }

    // ------------------------------------------------------------------------------ decode probes (C09, C12, C13)

    pub fn ev_decode_probe(&mut self, sid: SuiteId, kind: Kind, bytes: &[u8], cov: &mut Cov) -> V {
        let su = suite(sid);
        let r = su.recode(kind, bytes);
        cov.ops += 1;
        let kem = sid.kem;
        cov.hit(&format!("decode.{:?}.{:?}.{}", if kind == Kind::Tag { format!("{:?}", sid.aead) } else { format!("{:?}", kem) }, kind, out_class_s(&r)));
        cov.sig_event("Decode", &format!("{:?}{:?}{}{}", kem, kind, if bytes.len() < 300 { bytes.len().to_string() } else { len_class(bytes.len()).to_string() }, out_class_s(&r)));
        if let Err(Fail::Panic(m)) = &r {
            return Err(self.viol("decode.no-panic", "a value or an HpkeError".into(), format!("panic: {} (input {} bytes: {})", m, bytes.len(), short_hex(bytes))));
        }
        let (npk, nsk, nenc, nt) = su.sizes();
        let (rfc_pk, rfc_sk) = (kem.rfc_sizes().1, kem.rfc_sizes().2);
        let rfc_nt = sid.aead.rfc_sizes().2;
        let (size, rfc_size) = match kind {
            Kind::Pk => (npk, rfc_pk),
            Kind::Sk => (nsk, rfc_sk),
            Kind::Enc => (nenc, rfc_pk),
            Kind::Tag => (nt, rfc_nt),
        };
        match self.p {
            P::C09 => {
                if !kem.is_nist() || kind == Kind::Tag {
                    return Ok(());
                }
                let cv = math::curve(kem);
                let verdict = if kind == Kind::Sk { cv.valid_private(bytes) } else { cv.valid_public(bytes) };
                match (&verdict, &r) {
                    (PubVerdict::Valid, Ok(re)) => {
                        cov.hit("c09.valid_accepted");
                        if re != bytes {
                            return Err(self.viol("nist.canonical-reencode", short_hex(bytes), short_hex(re)));
                        }
                    }
                    (PubVerdict::Valid, Err(f)) => return Err(self.viol("nist.valid-rejected", format!("Ok for valid {:?} {}", kind, short_hex(bytes)), short(f))),
                    (PubVerdict::WrongLength(w, g), Err(Fail::Hpke(E::IncorrectInputLength(a, b)))) if a == w && b == g => cov.hit("c09.wrong_length_rejected"),
                    (PubVerdict::WrongLength(w, g), other) => return Err(self.viol("nist.wrong-length", format!("Err(IncorrectInputLength({}, {}))", w, g), res_s(other))),
                    (PubVerdict::Invalid(_), Err(Fail::Hpke(E::ValidationError))) => cov.hit("c09.invalid_rejected"),
                    (PubVerdict::Invalid(why), other) => return Err(self.viol("nist.invalid-accepted-or-wrong-error", format!("Err(ValidationError): {} ({:?} {})", why, kind, short_hex(bytes)), res_s(other))),
                }
            }
            P::C12 => {
                if size != rfc_size {
                    return Err(self.viol("codec.size", format!("{:?} size {} (RFC 9180)", kind, rfc_size), format!("{}", size)));
                }
                if bytes.len() != rfc_size {
                    match &r {
                        Err(Fail::Hpke(E::IncorrectInputLength(a, b))) if *a == rfc_size && *b == bytes.len() => cov.hit("c12.wrong_length_rejected"),
                        other => return Err(self.viol("codec.wrong-length", format!("Err(IncorrectInputLength({}, {}))", rfc_size, bytes.len()), res_s(other))),
                    }
                    return Ok(());
                }
                match &r {
                    Ok(re) => {
                        if re.len() != rfc_size {
                            return Err(self.viol("codec.to_bytes-length", format!("{}", rfc_size), format!("{}", re.len())));
                        }
                        let same = if kem == KemId::X25519 && kind == Kind::Sk { refhpke::clamp(re) == refhpke::clamp(bytes) } else { re == bytes };
                        if !same {
                            return Err(self.viol("codec.reencode-identical", short_hex(bytes), short_hex(re)));
                        }
                        match su.roundtrip_eq(kind, bytes) {
                            Ok(true) => cov.hit("c12.roundtrip_equal"),
                            other => return Err(self.viol("codec.roundtrip-equal", "from_bytes(to_bytes(v)) == v".into(), format!("{:?}", other))),
                        }
                    }
                    Err(Fail::Hpke(E::ValidationError)) if kem.is_nist() && kind != Kind::Tag => cov.hit("c12.right_length_invalid"),
                    other => return Err(self.viol("codec.right-length", "Ok (or ValidationError for an invalid NIST key)".into(), res_s(other))),
                }
            }
            P::C13 => {
                // "malformed data yields errors": bytes of the wrong length are malformed for every
                // decodable type, so a value coming back is not an error
                if bytes.len() != rfc_size {
                    if let Ok(re) = &r {
                        return Err(self.viol("decode.malformed-yields-error", format!("an HpkeError for {} bytes where {:?} takes {}", bytes.len(), kind, rfc_size), format!("Ok({})", short_hex(re))));
                    }
                    cov.hit("c13.wrong_length_is_an_error");
                }
            }
            _ => {
                // others: value or HpkeError, nothing else
                if let Err(Fail::Decode(..)) = &r {
                    unreachable!();
                }
            }
        }
        Ok(())
    }

    pub fn ev_write_exact_probe(&mut self, sid: SuiteId, kind: Kind, bytes: &[u8], buflen: usize, cov: &mut Cov) -> V {
        let su = suite(sid);
        let canonical = match su.recode(kind, bytes) {
            Ok(c) => c,
            Err(_) => return Ok(()),
        };
        let size = canonical.len();
        let r = su.write_exact(kind, bytes, buflen);
        cov.ops += 1;
        cov.hit(&format!("write_exact.{:?}.{}.{}", kind, if buflen == size { "exact" } else if buflen < size { "short" } else { "long" }, out_class_s(&r)));
        cov.sig_event("WriteExact", &format!("{:?}{:?}{}", sid.kem, kind, buflen as i64 - size as i64));
        if self.p != P::C12 {
            return Ok(());
        }
        match (&r, buflen == size) {
            (Ok(buf), true) => {
                if *buf != canonical {
                    return Err(self.viol("codec.write_exact-bytes", short_hex(&canonical), short_hex(buf)));
                }
            }
            (Err(Fail::Panic(_)), false) => {}
            (other, true) => return Err(self.viol("codec.write_exact-exact-buffer", "writes to_bytes()".into(), res_s(other))),
            (other, false) => return Err(self.viol("codec.write_exact-must-panic", format!("panic: buffer length {} != size {}", buflen, size), res_s(other))),
        }
        Ok(())
    }

    pub fn ev_psk_probe(&mut self, psk: &[u8], psk_id: &[u8], cov: &mut Cov) -> V {
        let r = guard(|| hpke::PskBundle::new(psk, psk_id).map(|_| ()).map_err(E::from));
        cov.ops += 1;
        let class = format!("{}{}", if psk.is_empty() { "e" } else { "n" }, if psk_id.is_empty() { "e" } else { "n" });
        cov.hit(&format!("psk_bundle.{}", class));
        cov.sig_event("Psk", &format!("{}{}{}", class, len_class(psk.len()), len_class(psk_id.len())));
        let want_ok = psk.is_empty() == psk_id.is_empty();
        match (r, want_ok) {
            (Ok(Ok(())), true) => Ok(()),
            (Ok(Err(E::InvalidPskBundle)), false) => Ok(()),
            (other, _) => Err(self.viol("psk.bundle-rule", format!("{}", if want_ok { "Ok" } else { "Err(InvalidPskBundle)" }), format!("{:?} for |psk|={} |psk_id|={}", other, psk.len(), psk_id.len()))),
        }
    }

    pub fn ev_psk_len_probe(&mut self, psk_len: u64, id_len: u64, cov: &mut Cov) -> V {
        const CAP: u64 = (1 << 33) + 16;
        let (a, b) = (psk_len.min(CAP) as usize, id_len.min(CAP) as usize);
        // one zero buffer, mapped lazily by the allocator and never read by PskBundle::new
        let big = vec![0u8; a.max(b)];
        let r = guard(|| hpke::PskBundle::new(&big[..a], &big[..b]).map(|_| ()).map_err(E::from));
        cov.ops += 1;
        cov.hit("probe.psk_bundle_huge_lengths");
        cov.sig_event("PskLen", &format!("{}/{}", a.leading_zeros(), b.leading_zeros()));
        let want_ok = (a == 0) == (b == 0);
        match (r, want_ok) {
            (Ok(Ok(())), true) => Ok(()),
            (Ok(Err(E::InvalidPskBundle)), false) => Ok(()),
            (other, _) => Err(self.viol("psk.bundle-rule", format!("{}", if want_ok { "Ok" } else { "Err(InvalidPskBundle)" }), format!("{:?} for |psk|={} |psk_id|={}", other, a, b))),
        }
    }

    pub fn ev_huge_alloc(&mut self, c: usize, pt_len: u64, aad_len: u64, cov: &mut Cov) -> V {
        const CAP: u64 = (1 << 32) + 64;
        let (pt_len, aad_len) = (pt_len.min(CAP) as usize, aad_len.min(CAP) as usize);
        let ok = {
            let sc = self.scs.get(c).and_then(|x| x.as_ref());
            let rc = self.rcs.get(c).and_then(|x| x.as_ref());
            match (sc, rc) {
                (Some(s), Some(r)) => s.real.is_some() && r.real.is_some() && s.ident == r.ident && s.m_seq == r.m_seq && !s.m_over && !r.m_over && s.cfg.suite.aead.seals() && !s.cfg.suite.shim,
                _ => false,
            }
        };
        if !ok {
            return Ok(());
        }
        let mut pt = vec![0x5Au8; pt_len];
        if pt_len >= 8 {
            pt[..8].copy_from_slice(b"hugemsg!");
        }
        let aad = vec![0xA7u8; aad_len];
        let nt = {
            let sc = self.scs[c].as_ref().unwrap();
            super::world_ops::nt_pub(&sc.cfg)
        };
        let ct = {
            let sc = self.scs[c].as_mut().unwrap();
            match sc.real.as_mut().unwrap().seal(&pt, &aad) {
                Ok(ct) => {
                    Self::model_advance(&mut sc.m_seq, &mut sc.m_over);
                    ct
                }
                Err(f) => return Err(self.viol("huge.seal", format!("Ok: a message of {} bytes with {} bytes of aad is legal", pt_len, aad_len), format!("Err({})", short(&f)))),
            }
        };
        if ct.len() != pt_len + nt {
            return Err(self.viol("huge.ct-length", format!("{}", pt_len + nt), format!("{}", ct.len())));
        }
        let opened = {
            let rc = self.rcs[c].as_mut().unwrap();
            let r = rc.real.as_mut().unwrap().open(&ct, &aad);
            if r.is_ok() {
                Self::model_advance(&mut rc.m_seq, &mut rc.m_over);
            }
            r
        };
        cov.ops += 2;
        cov.hit("probe.huge_allocating_seal_open");
        cov.sig_event("HugeAlloc", &format!("{}/{}", pt_len.leading_zeros(), aad_len.leading_zeros()));
        match opened {
            Ok(got) if got == pt => {}
            Ok(_) => return Err(self.viol("huge.plaintext", "the plaintext that was sealed".into(), "different bytes".into())),
            Err(f) => return Err(self.viol("huge.open", format!("Ok: the next in-sequence message ({} bytes, aad {} bytes) opens", pt_len, aad_len), format!("Err({})", short(&f)))),
        }
        let (ms, mo) = { let sc = self.scs[c].as_ref().unwrap(); (sc.m_seq, sc.m_over) };
        let got_s = self.scs[c].as_ref().unwrap().real.as_ref().unwrap().seq_state();
        let got_r = self.rcs[c].as_ref().unwrap().real.as_ref().unwrap().seq_state();
        if got_s != (ms, mo) || got_r != (ms, mo) {
            return Err(self.viol("huge.counter-law", format!("sender and receiver at position {:?}", (ms, mo)), format!("sender {:?}, receiver {:?}", got_s, got_r)));
        }
        Ok(())
    }

    pub fn ev_huge_field_probe(&mut self, sid: SuiteId, field: u8, pad: u64, cov: &mut Cov) -> V {
        const CAP: u64 = (1 << 32) + (1 << 20);
        let pad = pad.min(CAP) as usize;
        if !sid.aead.seals() {
            return Ok(());
        }
        let su = suite(sid);
        let kem = sid.kem;
        let (sk_r, pk_r, _) = refhpke::derive_keypair(kem, b"huge field probe recipient");
        let mut long = vec![0u8; 8 + pad];
        long[..8].copy_from_slice(b"session1");
        // what a 32-bit length would keep of it, and the string with its last byte changed
        let short_len = (long.len() as u64 % (1u64 << 32)) as usize;
        let fixed = b"fixed value".to_vec();
        let mk = |v: &[u8]| -> (Vec<u8>, Vec<u8>, Vec<u8>) {
            // (info, psk, psk_id)
            match field {
                0 => (v.to_vec(), fixed.clone(), fixed.clone()),
                1 => (fixed.clone(), fixed.clone(), v.to_vec()),
                _ => (fixed.clone(), v.to_vec(), fixed.clone()),
            }
        };
        let kind = ModeKind::Psk;
        let (info, psk, psk_id) = mk(&long);
        let mode_s = ModeS { kind: Some(kind), psk: psk.clone(), psk_id: psk_id.clone(), sk_s: vec![], pk_s: vec![] };
        let mut rng = ScriptRng::new(&[0x21u8; 66]);
        let (enc, mut s) = match su.setup_sender(&mode_s, &pk_r, &info, &mut rng) {
            Ok(x) => x,
            Err(f) => return Err(self.viol("huge-field.setup_s", "Ok".into(), short(&f))),
        };
        let ct = match s.seal(b"payload", b"") {
            Ok(c) => c,
            Err(f) => return Err(self.viol("huge-field.seal", "Ok".into(), short(&f))),
        };
        let se = s.export(b"x", 32).ok();
        // matching receiver
        let mode_r = ModeR { kind: Some(kind), psk, psk_id, pk_s: vec![] };
        match su.setup_receiver(&mode_r, &sk_r, &enc, &info) {
            Ok(mut r) => {
                if r.open(&ct, b"").ok().as_deref() != Some(&b"payload"[..]) {
                    return Err(self.viol("huge-field.round-trip", "the receiver with the same strings opens the message".into(), "it does not".into()));
                }
            }
            Err(f) => return Err(self.viol("huge-field.setup_r", "Ok".into(), short(&f))),
        }
        cov.ops += 4;
        drop(info);
        // mismatching receivers
        let mut variants: Vec<(&str, Vec<u8>)> = vec![("only the first (length mod 2^32) bytes", long[..short_len].to_vec())];
        {
            let l = long.len();
            long[l - 1] ^= 1;
        }
        variants.push(("the last byte changed", std::mem::take(&mut long)));
        for (what, v) in variants {
            let (info, psk, psk_id) = mk(&v);
            drop(v);
            let mode_r = ModeR { kind: Some(kind), psk, psk_id, pk_s: vec![] };
            if let Ok(mut r) = su.setup_receiver(&mode_r, &sk_r, &enc, &info) {
                cov.ops += 1;
                let opened = r.open(&ct, b"").is_ok();
                let same_export = r.export(b"x", 32).ok() == se && se.is_some();
                if opened || same_export {
                    return Err(self.viol(
                        "huge-field.mismatch-accepted",
                        format!("a receiver whose {} has {} gets a different context", ["info", "psk_id", "psk"][field.min(2) as usize], what),
                        format!("opened the message: {}, same exporter output: {}", opened, same_export),
                    ));
                }
            }
        }
        cov.hit("probe.config_string_longer_than_2^32");
        cov.sig_event("HugeField", &format!("{}", field));
        Ok(())
    }

    pub fn ev_seal_crafted(&mut self, c: usize, craft: Craft, len: usize, aad: &[u8], inplace: bool, cov: &mut Cov) -> V {
        let pt = {
            let sc = match self.scs.get(c).and_then(|x| x.as_ref()) {
                Some(s) => s,
                None => return Ok(()),
            };
            let refc = match &sc.refc {
                Some(r) if sc.cfg.suite.aead.seals() && !sc.m_over => r,
                _ => return Ok(()),
            };
            let len = len.min(1 << 16);
            let mut want: Vec<u8> = match craft {
                Craft::PrefixEnc => sc.enc.clone(),
                Craft::PrefixPkR => self.idents.get(sc.ident).map(|i| i.pk_r.clone()).unwrap_or_default(),
                Craft::PrefixInfo => sc.cfg.info.0.clone(),
                Craft::PrefixAad => aad.to_vec(),
                Craft::Zeros => vec![0u8; len],
                Craft::Ones => vec![0xffu8; len],
            };
            let total = match craft {
                Craft::Zeros | Craft::Ones => len,
                _ => want.len() + len,
            };
            want.resize(total, 0xA5);
            // keystream of this position: the model's ciphertext of zeros
            let ks = refc.seal_at(sc.m_seq as u128, aad, &vec![0u8; total]);
            (0..total).map(|i| want[i] ^ ks[i]).collect::<Vec<u8>>()
        };
        cov.hit(&format!("fault.crafted_ciphertext.{:?}", craft));
        self.ev_seal(c, &pt, aad, inplace, cov)
    }

    // ------------------------------------------------------------------------------ dispatcher

    pub fn apply(&mut self, ev: &Ev, cov: &mut Cov) -> V {
        // key objects decoded while this world acts belong to it (and are reused by its later calls)
        let prev = crate::suites::set_key_scope(self.id);
        let r = self.apply_inner(ev, cov);
        crate::suites::set_key_scope(prev);
        r
    }

    fn apply_inner(&mut self, ev: &Ev, cov: &mut Cov) -> V {
        cov.events += 1;
        match ev {
            Ev::Keygen { k, kem, ikm } => self.ev_keygen(*k, *kem, ikm, cov),
            Ev::KeygenRng { k, kem, rng } => self.ev_keygen_rng(*k, *kem, rng, cov),
            Ev::KeyRaw { k, kem, sk, pk } => self.ev_key_raw(*k, *kem, sk, pk, cov),
            Ev::SetupS { c, cfg, kr, ks, ks_pub, rng, model_only } => self.ev_setup_s(*c, cfg, *kr, *ks, *ks_pub, rng, *model_only, cov),
            Ev::SetupR { c, cfg, kr, ks, enc, model_only } => self.ev_setup_r(*c, cfg, *kr, *ks, enc, *model_only, cov),
            Ev::Seal { c, pt, aad, inplace } => self.ev_seal(*c, pt, aad, *inplace, cov),
            Ev::SealMany { c, n, len, inplace } => self.ev_seal_many(*c, *n, *len, *inplace, cov),
            Ev::FailNextSeal { c } => self.ev_fail_next(*c),
            Ev::FailNextOpen { r } => {
                if let Some(rc) = self.rcs.get_mut(*r).and_then(|x| x.as_mut()) {
                    if rc.cfg.suite.shim && rc.real.is_some() && rc.twin.is_none() && !rc.m_over {
                        rc.fail_open_armed = true;
                    }
                }
                Ok(())
            }
            Ev::Deliver { r, from, rec, fault, api } => self.ev_deliver(*r, *from, *rec, fault, *api, cov),
            Ev::Pump { r, from, n, len, inplace_s, inplace_r } => self.ev_pump(*r, *from, *n, *len, *inplace_s, *inplace_r, cov),
            Ev::TamperSweep { r, from, rec, api, max_bits, only } => self.ev_tamper_sweep(*r, *from, *rec, *api, *max_bits, *only, cov),
            Ev::Export { c, role, ctx, len } => self.ev_export(*c, *role, ctx, *len, cov),
            Ev::ExportCmp { s, r, ctx, len } => self.ev_export_cmp(*s, *r, ctx, *len, cov),
            Ev::Jump { c, role, to } => self.ev_jump(*c, *role, *to, cov),
            Ev::JumpNonceXor { c, role, pat } => {
                let base = match role {
                    Role::S => self.scs.get(*c).and_then(|x| x.as_ref()).and_then(|s| s.refc.as_ref()).map(|r| r.base_nonce.clone()),
                    Role::R => self.rcs.get(*c).and_then(|x| x.as_ref()).and_then(|s| s.refc.as_ref()).map(|r| r.base_nonce.clone()),
                };
                match base {
                    Some(bn) if bn.len() >= 8 => {
                        let mut w = [0u8; 8];
                        w.copy_from_slice(&bn[bn.len() - 8..]);
                        cov.hit("fault.seq_jump_nonce_pattern");
                        self.ev_jump(*c, *role, u64::from_be_bytes(w) ^ *pat, cov)
                    }
                    _ => Ok(()),
                }
            }
            Ev::JumpNonceRel { c, role, keep_top, low } => {
                let base = match role {
                    Role::S => self.scs.get(*c).and_then(|x| x.as_ref()).and_then(|s| s.refc.as_ref()).map(|r| r.base_nonce.clone()),
                    Role::R => self.rcs.get(*c).and_then(|x| x.as_ref()).and_then(|s| s.refc.as_ref()).map(|r| r.base_nonce.clone()),
                };
                match base {
                    Some(bn) if bn.len() >= 8 => {
                        let mut w = [0u8; 8];
                        w.copy_from_slice(&bn[bn.len() - 8..]);
                        let b64 = u64::from_be_bytes(w);
                        let k = (*keep_top).min(8) as u32;
                        let mask = if k >= 8 { u64::MAX } else if k == 0 { 0 } else { u64::MAX << (64 - 8 * k) };
                        let to = (b64 & mask) | (*low & !mask);
                        cov.hit("fault.seq_jump_nonce_relative");
                        self.ev_jump(*c, *role, to, cov)
                    }
                    _ => Ok(()),
                }
            }
            Ev::Teardown { c, role } => self.ev_teardown(*c, *role, cov),
            Ev::SingleShotSeal { c, cfg, kr, ks, ks_pub, rng, pt, aad, inplace } => self.ev_single_shot_seal(*c, cfg, *kr, *ks, *ks_pub, rng, pt, aad, *inplace, cov),
            Ev::DeriveProbe { kem, ikm } => self.ev_derive_probe(*kem, ikm, cov),
            Ev::GenProbe { kem, rng } => self.ev_gen_probe(*kem, rng, cov),
            Ev::KemProbe { kem, kr, ks, rng } => self.ev_kem_probe(*kem, *kr, *ks, rng, cov),
            Ev::DecodeProbe { suite, kind, bytes } => self.ev_decode_probe(*suite, *kind, bytes, cov),
            Ev::WriteExactProbe { suite, kind, bytes, buflen } => self.ev_write_exact_probe(*suite, *kind, bytes, *buflen, cov),
            Ev::PskProbe { psk, psk_id } => self.ev_psk_probe(psk, psk_id, cov),
            Ev::PskLenProbe { psk_len, id_len } => self.ev_psk_len_probe(*psk_len, *id_len, cov),
            Ev::HugeAlloc { c, pt_len, aad_len } => self.ev_huge_alloc(*c, *pt_len, *aad_len, cov),
            Ev::HugeFieldProbe { suite, field, pad } => self.ev_huge_field_probe(*suite, *field, *pad, cov),
            Ev::SealCrafted { c, craft, len, aad, inplace } => self.ev_seal_crafted(*c, *craft, *len, aad, *inplace, cov),
            Ev::RawOpen { r, ct, aad, tag } => self.ev_raw_open(*r, ct, aad, tag.as_ref().map(|t| &t.0[..]), cov),
            Ev::On { inner, .. } => self.apply_inner(inner, cov),
            Ev::OnNested { inner, .. } => self.apply_inner(inner, cov),
            Ev::RejectBurst { r, from, n } => self.ev_reject_burst(*r, *from, *n, cov),
            Ev::VolumePump { c, n, len } => self.ev_volume_pump(*c, *n, *len, cov),
            Ev::ExportBurst { c, role, n, len } => {
                let ctx = [7u8, 7, 7];
                for i in 0..*n {
                    // same arguments every time: the repeatability cache of ev_export compares them
                    let mut scratch = Cov::new();
                    self.ev_export(*c, *role, &ctx, *len, if i == 0 { cov } else { &mut scratch })?;
                }
                cov.hit("fault.export_burst");
                Ok(())
            }
            Ev::TeardownUnwinding { c, role } => self.ev_teardown_unwinding(*c, *role, cov),
            Ev::StripZerosProbe { r, from } => self.ev_strip_zeros(*r, *from, cov),
            Ev::SingleShotOpenRaw { cfg, kr, ks, enc, ct, aad, tag } => self.ev_single_shot_open_raw(cfg, *kr, *ks, enc, ct, aad, tag.as_ref().map(|t| &t.0[..]), cov),
        }
    }
}

pub fn len_class(n: usize) -> &'static str {
    match n {
        0 => "0",
        1..=15 => "1-15",
        16..=64 => "16-64",
        65..=255 => "65-255",
        256..=4095 => "256-4K",
        4096..=65535 => "4K-64K",
        _ => "64K+",
    }
}

/// Executes a case on a fresh world. Returns the first violation, if any.
pub fn execute(case: &Case, cov: &mut Cov) -> Option<Violation> {
    let p = P::parse(&case.property).expect("unknown property in case");
    if p == P::C18 {
        return crate::c18::execute_c18(case, cov);
    }
    // One run in eight executes with its world hopping between OS threads (contexts, keys and tags are
    // Send: creating a context on one thread and using it on another is ordinary use). Which thread
    // executes event i is a function of i, so the run replays; exactly one thread runs at a time.
    if case.run_seed % 8 == 3 && case.events.len() >= 2 {
        return crate::c18::execute_hopping(case, p, cov);
    }
    let mut w = World::new(p);
    for (i, ev) in case.events.iter().enumerate() {
        w.ev_idx = i;
        if let Err(v) = w.apply(ev, cov) {
            return Some(v);
        }
    }
    None
}
