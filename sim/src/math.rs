//! Math oracles: a small fixed-width big-integer module deciding curve membership and scalar range
//! from the FIPS 186-4 constants, independent of the curve crates; and the X25519 helpers
//! (canonical form of a u-coordinate, the small-order list).

use crate::suites::KemId;
use crate::util::unhex;
use std::cmp::Ordering;

pub const LIMBS: usize = 9; // 576 bits, enough for P-521

#[derive(Clone, Copy, PartialEq, Eq, Debug)]
pub struct U(pub [u64; LIMBS]); // little-endian limbs

impl U {
    pub const ZERO: U = U([0; LIMBS]);
    pub fn from_u64(v: u64) -> U {
        let mut l = [0u64; LIMBS];
        l[0] = v;
        U(l)
    }
    /// big-endian bytes, at most 72
    pub fn from_be(b: &[u8]) -> U {
        assert!(b.len() <= LIMBS * 8);
        let mut l = [0u64; LIMBS];
        for (i, byte) in b.iter().rev().enumerate() {
            l[i / 8] |= (*byte as u64) << (8 * (i % 8));
        }
        U(l)
    }
    pub fn to_be(&self, len: usize) -> Vec<u8> {
        let mut out = vec![0u8; len];
        for i in 0..len.min(LIMBS * 8) {
            out[len - 1 - i] = (self.0[i / 8] >> (8 * (i % 8))) as u8;
        }
        out
    }
    pub fn is_zero(&self) -> bool {
        self.0.iter().all(|x| *x == 0)
    }
    pub fn cmp(&self, o: &U) -> Ordering {
        for i in (0..LIMBS).rev() {
            if self.0[i] != o.0[i] {
                return self.0[i].cmp(&o.0[i]);
            }
        }
        Ordering::Equal
    }
    pub fn lt(&self, o: &U) -> bool {
        self.cmp(o) == Ordering::Less
    }
    /// (self + o, carry)
    pub fn add(&self, o: &U) -> (U, bool) {
        let mut r = [0u64; LIMBS];
        let mut c = 0u128;
        for i in 0..LIMBS {
            let s = self.0[i] as u128 + o.0[i] as u128 + c;
            r[i] = s as u64;
            c = s >> 64;
        }
        (U(r), c != 0)
    }
    /// (self - o, borrow)
    pub fn sub(&self, o: &U) -> (U, bool) {
        let mut r = [0u64; LIMBS];
        let mut b = 0i128;
        for i in 0..LIMBS {
            let d = self.0[i] as i128 - o.0[i] as i128 - b;
            if d < 0 {
                r[i] = (d + (1i128 << 64)) as u64;
                b = 1;
            } else {
                r[i] = d as u64;
                b = 0;
            }
        }
        (U(r), b != 0)
    }
    pub fn bit(&self, i: usize) -> bool {
        (self.0[i / 64] >> (i % 64)) & 1 == 1
    }
    pub fn shr1(&self) -> U {
        let mut r = [0u64; LIMBS];
        for i in 0..LIMBS {
            r[i] = self.0[i] >> 1;
            if i + 1 < LIMBS {
                r[i] |= self.0[i + 1] << 63;
            }
        }
        U(r)
    }
    pub fn bits(&self) -> usize {
        for i in (0..LIMBS * 64).rev() {
            if self.bit(i) {
                return i + 1;
            }
        }
        0
    }
}

/// Arithmetic modulo m (m < 2^575 so that doubling never overflows the fixed width)
pub fn add_mod(a: &U, b: &U, m: &U) -> U {
    let (s, _) = a.add(b);
    if !s.lt(m) {
        s.sub(m).0
    } else {
        s
    }
}
pub fn sub_mod(a: &U, b: &U, m: &U) -> U {
    let (d, borrow) = a.sub(b);
    if borrow {
        d.add(m).0
    } else {
        d
    }
}
/// a*b mod m by double-and-add (a, b < m)
pub fn mul_mod(a: &U, b: &U, m: &U) -> U {
    let mut r = U::ZERO;
    let n = b.bits();
    for i in (0..n).rev() {
        r = add_mod(&r, &r, m);
        if b.bit(i) {
            r = add_mod(&r, a, m);
        }
    }
    r
}
pub fn pow_mod(a: &U, e: &U, m: &U) -> U {
    let mut r = U::from_u64(1);
    let n = e.bits();
    for i in (0..n).rev() {
        r = mul_mod(&r, &r, m);
        if e.bit(i) {
            r = mul_mod(&r, a, m);
        }
    }
    r
}

pub struct Curve {
    pub kem: KemId,
    pub flen: usize, // field element length in bytes
    pub p: U,
    pub b: U,
    pub n: U,
    pub gx: U,
    pub gy: U,
}

pub fn curve(kem: KemId) -> Curve {
    let h = |s: &str| U::from_be(&unhex(s));
    match kem {
        KemId::P256 => Curve {
            kem,
            flen: 32,
            p: h("ffffffff00000001000000000000000000000000ffffffffffffffffffffffff"),
            b: h("5ac635d8aa3a93e7b3ebbd55769886bc651d06b0cc53b0f63bce3c3e27d2604b"),
            n: h("ffffffff00000000ffffffffffffffffbce6faada7179e84f3b9cac2fc632551"),
            gx: h("6b17d1f2e12c4247f8bce6e563a440f277037d812deb33a0f4a13945d898c296"),
            gy: h("4fe342e2fe1a7f9b8ee7eb4a7c0f9e162bce33576b315ececbb6406837bf51f5"),
        },
        KemId::P384 => Curve {
            kem,
            flen: 48,
            p: h("fffffffffffffffffffffffffffffffffffffffffffffffffffffffffffffffeffffffff0000000000000000ffffffff"),
            b: h("b3312fa7e23ee7e4988e056be3f82d19181d9c6efe8141120314088f5013875ac656398d8a2ed19d2a85c8edd3ec2aef"),
            n: h("ffffffffffffffffffffffffffffffffffffffffffffffffc7634d81f4372ddf581a0db248b0a77aecec196accc52973"),
            gx: h("aa87ca22be8b05378eb1c71ef320ad746e1d3b628ba79b9859f741e082542a385502f25dbf55296c3a545e3872760ab7"),
            gy: h("3617de4a96262c6f5d9e98bf9292dc29f8f41dbd289a147ce9da3113b5f0b8c00a60b1ce1d7e819d7a431d7c90ea0e5f"),
        },
        KemId::P521 => Curve {
            kem,
            flen: 66,
            p: h("01ffffffffffffffffffffffffffffffffffffffffffffffffffffffffffffffffffffffffffffffffffffffffffffffffffffffffffffffffffffffffffffffffff"),
            b: h("0051953eb9618e1c9a1f929a21a0b68540eea2da725b99b315f3b8b489918ef109e156193951ec7e937b1652c0bd3bb1bf073573df883d2c34f1ef451fd46b503f00"),
            n: h("01fffffffffffffffffffffffffffffffffffffffffffffffffffffffffffffffffa51868783bf2f966b7fcc0148f709a5d03bb5c9b8899c47aebb6fb71e91386409"),
            gx: h("00c6858e06b70404e9cd9e3ecb662395b4429c648139053fb521f828af606b4d3dbaa14b5e77efe75928fe1dc127a2ffa8de3348b3c1856a429bf97e7e31c2e5bd66"),
            gy: h("011839296a789a3bc0045c8a5fb42c7d1bd998f54449579b446817afbd17273e662c97ee72995ef42640c550b9013fad0761353c7086a272c24088be94769fd16650"),
        },
        KemId::X25519 => panic!("no Weierstrass curve for X25519"),
    }
}

impl Curve {
    /// x^3 - 3x + b mod p
    pub fn rhs(&self, x: &U) -> U {
        let x2 = mul_mod(x, x, &self.p);
        let x3 = mul_mod(&x2, x, &self.p);
        let three_x = add_mod(&add_mod(x, x, &self.p), x, &self.p);
        add_mod(&sub_mod(&x3, &three_x, &self.p), &self.b, &self.p)
    }
    pub fn on_curve(&self, x: &U, y: &U) -> bool {
        x.lt(&self.p) && y.lt(&self.p) && mul_mod(y, y, &self.p) == self.rhs(x)
    }
    /// square root mod p (p = 3 mod 4 for all three curves); None if a is a non-residue
    pub fn sqrt(&self, a: &U) -> Option<U> {
        let (p1, _) = self.p.add(&U::from_u64(1));
        let e = p1.shr1().shr1();
        let r = pow_mod(a, &e, &self.p);
        if mul_mod(&r, &r, &self.p) == *a {
            Some(r)
        } else {
            None
        }
    }
    /// RFC 9180 / SEC1 validity of a serialised public key: uncompressed, exact length,
    /// coordinates below p, on the curve (the identity has no uncompressed encoding).
    pub fn valid_public(&self, b: &[u8]) -> PubVerdict {
        let want = 1 + 2 * self.flen;
        if b.len() != want {
            return PubVerdict::WrongLength(want, b.len());
        }
        if b[0] != 0x04 {
            return PubVerdict::Invalid("tag byte is not 0x04");
        }
        let x = U::from_be(&b[1..1 + self.flen]);
        let y = U::from_be(&b[1 + self.flen..]);
        if !x.lt(&self.p) || !y.lt(&self.p) {
            return PubVerdict::Invalid("coordinate not below p");
        }
        if !self.on_curve(&x, &y) {
            return PubVerdict::Invalid("not on curve");
        }
        PubVerdict::Valid
    }
    pub fn valid_private(&self, b: &[u8]) -> PubVerdict {
        let want = match self.kem {
            KemId::P521 => 66,
            _ => self.flen,
        };
        if b.len() != want {
            return PubVerdict::WrongLength(want, b.len());
        }
        let s = U::from_be(b);
        if s.is_zero() {
            return PubVerdict::Invalid("scalar is zero");
        }
        if !s.lt(&self.n) {
            return PubVerdict::Invalid("scalar not below n");
        }
        PubVerdict::Valid
    }
    pub fn encode(&self, x: &U, y: &U) -> Vec<u8> {
        let mut v = vec![0x04];
        v.extend_from_slice(&x.to_be(self.flen));
        v.extend_from_slice(&y.to_be(self.flen));
        v
    }
    pub fn selftest(&self) -> Result<(), String> {
        if !self.on_curve(&self.gx, &self.gy) {
            return Err(format!("{:?}: generator not on curve", self.kem));
        }
        if self.p.0[0] & 3 != 3 {
            return Err(format!("{:?}: p != 3 mod 4", self.kem));
        }
        let y2 = self.rhs(&self.gx);
        match self.sqrt(&y2) {
            Some(y) => {
                let ny = sub_mod(&U::ZERO, &y, &self.p);
                if y != self.gy && ny != self.gy {
                    return Err(format!("{:?}: sqrt does not recover Gy", self.kem));
                }
            }
            None => return Err(format!("{:?}: sqrt failed on G", self.kem)),
        }
        Ok(())
    }
}

#[derive(Clone, Debug, PartialEq, Eq)]
pub enum PubVerdict {
    Valid,
    WrongLength(usize, usize),
    Invalid(&'static str),
}

// ---------------------------------------------------------------------------------- X25519

/// The 7 small-order u-coordinates (little-endian); each also with bit 255 set gives 14 encodings
pub fn x25519_small_order() -> Vec<Vec<u8>> {
    let base = [
        "0000000000000000000000000000000000000000000000000000000000000000",
        "0100000000000000000000000000000000000000000000000000000000000000",
        "e0eb7a7c3b41b8ae1656e3faf19fc46ada098deb9c32b1fd866205165f49b800",
        "5f9c95bca3508c24b1d0b1559c83ef5b04445cc4581c8e86d8224eddd09f1157",
        "ecffffffffffffffffffffffffffffffffffffffffffffffffffffffffffff7f",
        "edffffffffffffffffffffffffffffffffffffffffffffffffffffffffffff7f",
        "eeffffffffffffffffffffffffffffffffffffffffffffffffffffffffffff7f",
    ];
    let mut out = Vec::new();
    for s in base {
        let b = unhex(s);
        let mut hi = b.clone();
        hi[31] |= 0x80;
        out.push(b);
        out.push(hi);
    }
    out
}

/// The small-order u values plus p and plus 2p, written as 256-bit little-endian strings *without*
/// masking bit 255 (the way lists of "keys to reject" are often published). X25519 masks bit 255, so
/// most of these strings denote ordinary points (v - 19, v - 38): an implementation that rejects by
/// byte comparison against such a list rejects valid keys.
pub fn x25519_unmasked_aliases() -> Vec<Vec<u8>> {
    let p = U::from_be(&unhex("7fffffffffffffffffffffffffffffffffffffffffffffffffffffffffffffed"));
    let mut out = Vec::new();
    for b in x25519_small_order().into_iter().step_by(2) {
        let mut be = b.clone();
        be.reverse();
        let v = U::from_be(&be);
        for k in 1..=2 {
            let mut x = v;
            for _ in 0..k {
                x = x.add(&p).0;
            }
            if x.bits() <= 256 {
                let mut le = x.to_be(32);
                le.reverse();
                out.push(le);
            }
        }
    }
    out
}

/// Canonical form of an X25519 u-coordinate: bit 255 cleared, reduced modulo 2^255-19
pub fn x25519_canon(u: &[u8]) -> Vec<u8> {
    let mut v = u.to_vec();
    if v.len() != 32 {
        return v;
    }
    v[31] &= 0x7f;
    let ge_p = v[31] == 0x7f && v[1..31].iter().all(|b| *b == 0xff) && v[0] >= 0xed;
    if ge_p {
        let low = v[0] - 0xed;
        v = vec![0u8; 32];
        v[0] = low;
    }
    v
}

/// A different encoding of the same u-coordinate, if one exists that differs from the input:
/// u+p when u < 19 (fits below 2^255), otherwise bit 255 set.
pub fn x25519_twin(u: &[u8]) -> Vec<u8> {
    let mut v = u.to_vec();
    if v.len() == 32 {
        v[31] ^= 0x80;
    }
    v
}
