//! Seeded generators: PRNG -> explicit event list, one per property profile. Generation never looks
//! at what the real code returns; events refer to records and contexts symbolically and are resolved
//! at execution time, so every sub-list of a generated list is executable.

use crate::events::*;
use crate::math;
use crate::prng::Prng;
use crate::refhpke;
use crate::suites::*;
use crate::util::{unhex, B};
use crate::world::P;

pub struct Tier {
    pub thorough: bool,
}

fn b(v: Vec<u8>) -> B {
    B(v)
}

/// boundary targets for the logical-clock jump
pub fn jump_targets() -> Vec<u64> {
    let mut v = vec![];
    // carries across every bit position (not only byte boundaries): 2^k - 2 and 2^k - 1
    for k in 8..64u32 {
        v.push((1u64 << k) - 2);
        v.push((1u64 << k) - 1);
    }
    // low 32-bit word all ones under assorted high words
    for h in [2u64, 3, 5, 0x100, 0x10001, 0x7fff_ffff, 0xffff_fffe] {
        v.push((h << 32) | 0xffff_ffff);
    }
    v.extend_from_slice(&[(1u64 << 32) - 1, 1u64 << 63, u64::MAX - 2, u64::MAX - 1, u64::MAX]);
    // numbers that are limits *somewhere else* (other protocols' AEAD usage limits such as
    // 2^24.5 = 23726566 records, rekey thresholds, decimal round numbers): HPKE has none of them
    let mut limits: Vec<u64> = vec![];
    for k in 16..64u32 {
        // floor(2^(k + 1/2)) = isqrt(2^(2k+1))
        let n: u128 = 1u128 << (2 * k + 1);
        let mut x = (n as f64).sqrt() as u128;
        while x * x > n {
            x -= 1;
        }
        while (x + 1) * (x + 1) <= n {
            x += 1;
        }
        if x <= u64::MAX as u128 {
            limits.push(x as u64);
        }
    }
    let mut d = 1000u64;
    while d < u64::MAX / 10 {
        limits.push(d);
        d *= 10;
    }
    limits.extend_from_slice(&[u64::MAX - (1 << 13), (1u64 << 36) - 32, (1u64 << 32) - 2, 1u64 << 60, 1u64 << 52, 1u64 << 48, 1u64 << 23]);
    for l in limits {
        v.push(l - 2);
        v.push(l - 1);
        v.push(l);
    }
    v.sort();
    v.dedup();
    v
}

/// Round-robin over suites x modes by run index, so that every cell is covered before random choice
pub fn suite_mode(run: u64, aeads: &[AeadId], shim: bool) -> (SuiteId, ModeKind) {
    let na = aeads.len() as u64;
    let i = run;
    let mode = MODES[(i % 4) as usize];
    let aead = aeads[((i / 4) % na) as usize];
    let kdf = KDFS[((i / (4 * na)) % 3) as usize];
    let kem = KEMS[((i / (12 * na)) % 4) as usize];
    (SuiteId { kem, kdf, aead, shim }, mode)
}

/// Cheap-KEM-biased variant: full round robin on the first cycle, afterwards P-384/P-521 only one
/// run in eight (they cost 10-16x an X25519 session)
pub fn suite_mode_biased(run: u64, rng: &mut Prng, aeads: &[AeadId], shim: bool) -> (SuiteId, ModeKind) {
    let cycle = 48 * aeads.len() as u64;
    let (mut s, m) = suite_mode(run, aeads, shim);
    if run >= cycle && matches!(s.kem, KemId::P384 | KemId::P521) && !rng.chance(1, 8) {
        s.kem = if rng.chance(1, 2) { KemId::X25519 } else { KemId::P256 };
    }
    (s, m)
}

pub fn gen_cfg(rng: &mut Prng, suite: SuiteId, mode: ModeKind, cap: usize) -> Cfg {
    // now and then a long string (crosses the 2-byte length prefix and HMAC block boundaries)
    let cap = if cap >= 100 && rng.chance(1, 40) { 70001 } else { cap };
    let info = rng.var_bytes(cap);
    let (psk, psk_id) = if mode.has_psk() && rng.chance(1, 12) {
        // the (permitted) empty bundle
        (vec![], vec![])
    } else if mode.has_psk() {
        let mut psk = rng.var_bytes(cap);
        if psk.is_empty() {
            psk = rng.rand_bytes(32);
        }
        let mut psk_id = rng.var_bytes(cap);
        if psk_id.is_empty() || psk_id == psk {
            psk_id = rng.rand_bytes(9);
        }
        (psk, psk_id)
    } else if rng.chance(1, 4) {
        // values that a non-PSK mode must ignore
        (rng.rand_bytes(16), rng.rand_bytes(4))
    } else {
        (vec![], vec![])
    };
    let (mut info, mut psk, mut psk_id) = (info, psk, psk_id);
    if rng.chance(1, 20) {
        // inputs shaped like the protocol's own framing: "HPKE-v1", optionally followed by this
        // suite's id and one of the RFC labels, then arbitrary bytes. They are ordinary data.
        let mut v = b"HPKE-v1".to_vec();
        if rng.chance(2, 3) {
            v.extend_from_slice(&refhpke::hpke_suite_id(suite.kem, suite.kdf, suite.aead));
            if rng.chance(2, 3) {
                v.extend_from_slice(*rng.pick(&[&b"info_hash"[..], b"psk_id_hash", b"secret", b"key", b"base_nonce", b"exp", b"sec"]));
            }
        }
        let tl = rng.range(0, 20);
        v.extend_from_slice(&rng.rand_bytes(tl));
        match rng.below(3) {
            0 => info = v,
            1 if mode.has_psk() && !psk.is_empty() => psk_id = v,
            _ if mode.has_psk() && !psk_id.is_empty() => psk = v,
            _ => info = v,
        }
    }
    if mode.has_psk() && !psk_id.is_empty() && psk_id.len() < 60000 && rng.chance(1, 30) {
        // an identifier that happens to look like a length-prefixed vector
        let n = psk_id.len();
        let mut h = if rng.chance(1, 2) { vec![(n >> 8) as u8, n as u8] } else { vec![n as u8] };
        h.extend_from_slice(&psk_id);
        psk_id = h;
    }
    if mode.has_psk() && psk.len() >= 2 && rng.chance(1, 30) {
        // an id that is a prefix of the key, or a key that is a prefix of the id
        let k = rng.range(1, psk.len() - 1);
        if rng.chance(1, 2) {
            psk_id = psk[..k].to_vec();
        } else {
            psk_id = psk.clone();
            psk_id.extend_from_slice(&rng.rand_bytes(3));
        }
    }
    if mode.has_psk() && !psk.is_empty() && rng.chance(1, 25) {
        // equal contents in two arguments (the adapter passes one buffer for both, on one side or both)
        match rng.below(3) {
            0 if !info.is_empty() => psk_id = info.clone(),
            1 => info = psk_id.clone(),
            _ => info = psk.clone(),
        }
    }
    Cfg { suite, mode, info: b(info), psk: b(psk), psk_id: b(psk_id) }
}

fn ikm(rng: &mut Prng) -> B {
    let l = match rng.below(6) {
        0 => rng.range(0, 16),
        1 => rng.range(17, 200),
        _ => 32,
    };
    let mut v = rng.rand_bytes(l);
    if l == 0 {
        v = vec![];
    }
    b(v)
}

/// A *valid* peer public key for the private key `sk` whose Diffie-Hellman result is an algebraically
/// special value that random keys never produce: NIST x-coordinate 0, tiny, in [n, p), with leading
/// or trailing zero bytes; X25519 output with all but a few bytes zero. Every one of them is an
/// ordinary shared secret as far as RFC 9180 is concerned.
pub fn dh_partner(rng: &mut Prng, kem: KemId, sk: &[u8]) -> Option<Vec<u8>> {
    use crate::math::U;
    if kem == KemId::X25519 {
        for _ in 0..96 {
            let mut t = [0u8; 32];
            match rng.below(8) {
                7 => {
                    // one special byte value repeated at the same position of several 32-bit words,
                    // zero elsewhere (word-wise folds of the result then equal 0x80000000, 1, ...)
                    let r = rng.below(4) as usize;
                    let v = *rng.pick(&[0x80u8, 0x80, 0x01, 0xff]);
                    let mut any = false;
                    for w in 0..8 {
                        if rng.chance(1, 3) {
                            t[4 * w + r] = v;
                            any = true;
                        }
                    }
                    if !any {
                        t[r] = v;
                    }
                }
                0 => rng.fill(&mut t[24..]),
                1 => rng.fill(&mut t[..8]),
                2 => t[rng.below(32) as usize] = if rng.chance(1, 2) { *rng.pick(&[0x80u8, 0x01, 0xff, 0x7f, 0x40]) } else { rng.range(1, 255) as u8 },
                3 => {
                    let k = *rng.pick(&[1usize, 4, 8, 16, 28]);
                    rng.fill(&mut t[k..]);
                }
                4 => {
                    let k = *rng.pick(&[1usize, 4, 8, 16, 28]);
                    rng.fill(&mut t[..32 - k]);
                }
                5 => {
                    let v = rng.range(1, 127) as u8;
                    t = [v; 32];
                }
                _ => {
                    rng.fill(&mut t[8..16]);
                }
            }
            t[31] &= 0x7f;
            if let Some(p) = refhpke::x25519_partner(sk, &t) {
                return Some(p);
            }
        }
        return None;
    }
    let cv = math::curve(kem);
    let one = U::from_u64(1);
    for _ in 0..64 {
        let r = U::from_u64(rng.below(1 << 16));
        let x = match rng.below(9) {
            0 => U::ZERO,
            1 => r,
            2 => cv.p.sub(&one).0.sub(&r).0, // in [n, p): not a canonical scalar, still a field element
            3 => cv.n.add(&r).0,
            4 => cv.n.sub(&r).0,
            5 => {
                // leading zero bytes
                let k = *rng.pick(&[1usize, 2, 8, 16]);
                let mut v = rng.rand_bytes(cv.flen);
                for b in v.iter_mut().take(k) {
                    *b = 0;
                }
                U::from_be(&v)
            }
            6 => {
                // trailing zero bytes
                let k = *rng.pick(&[1usize, 2, 8, 16]);
                let mut v = rng.rand_bytes(cv.flen);
                let l = v.len();
                for b in v[l - k..].iter_mut() {
                    *b = 0;
                }
                if kem == KemId::P521 {
                    v[0] &= 1;
                }
                U::from_be(&v)
            }
            7 => {
                let mut v = vec![0u8; cv.flen];
                let i = rng.below(cv.flen as u64) as usize;
                v[i] = 1 << rng.below(8);
                if kem == KemId::P521 && i == 0 {
                    v[0] = 1;
                }
                U::from_be(&v)
            }
            _ => {
                let mut v = vec![rng.range(1, 255) as u8; cv.flen];
                if kem == KemId::P521 {
                    v[0] &= 1;
                }
                U::from_be(&v)
            }
        };
        if let Some(p) = refhpke::partner_for_x(kem, sk, &x) {
            return Some(p);
        }
    }
    None
}

/// A seal event; now and then one whose *ciphertext* (not plaintext) is given a shape that a
/// content-sniffing code path could mistake for something else
fn seal_ev(rng: &mut Prng, c: usize, pt: B, aad: B) -> Ev {
    if rng.chance(1, 14) {
        let craft = *rng.pick(&[Craft::PrefixEnc, Craft::PrefixEnc, Craft::PrefixPkR, Craft::PrefixInfo, Craft::PrefixAad, Craft::Zeros, Craft::Ones]);
        let len = *rng.pick(&[0usize, 1, 15, 16, 17, 32, 40]);
        return Ev::SealCrafted { c, craft, len, aad, inplace: rng.chance(1, 2) };
    }
    Ev::Seal { c, pt, aad, inplace: rng.chance(1, 2) }
}

fn rng_script(rng: &mut Prng, kem: KemId) -> B {
    let nsk = kem.rfc_sizes().2;
    if rng.chance(1, 40) {
        // RNG output whose derived key is special (extreme Hamming weight, leading ffffffff / 00000000)
        let c: Vec<&crate::special::SkSpecial> = crate::special::SK_TABLE.iter().filter(|e| e.kem == kem && e.ikm.len() == 2 * nsk).collect();
        if !c.is_empty() {
            return b(unhex(rng.pick(&c).ikm));
        }
    }
    if kem == KemId::P256 && rng.chance(1, 64) {
        let v = unhex(P256_RETRY_RNG[0]);
        if refhpke::derive_keypair(kem, &v).2 > 0 {
            return b(v);
        }
    }
    match rng.below(10) {
        0 => b(vec![0u8; nsk]),
        1 => b(vec![0xFFu8; nsk]),
        2 => {
            let p = rng.range(1, 4);
            let pat = rng.rand_bytes(p);
            b((0..nsk).map(|i| pat[i % p]).collect())
        }
        3 => { let l = rng.range(0, nsk); b(rng.rand_bytes(l)) }, // short script: padded with zeros by the RNG seam
        _ => b(rng.rand_bytes(nsk)),
    }
}

/// Keygen(2c), Keygen(2c+1), SetupS(c), SetupR(c)
/// A session whose key schedule yields a base nonce / key / exporter secret that *starts with zero
/// bytes* (found by search, see special.rs): value-dependent shortcuts ("nothing to wipe", "already
/// zero", "counter part only") show on such contexts and on no randomly drawn one.
fn special_ks_session(ev: &mut Vec<Ev>, rng: &mut Prng, c: usize, shim_ok: bool) -> Cfg {
    let e = &crate::special::KS_TABLE[rng.below(crate::special::KS_TABLE.len() as u64) as usize];
    let suite = SuiteId { kem: e.kem, kdf: e.kdf, aead: e.aead, shim: shim_ok && rng.chance(1, 3) };
    let cfg = Cfg { suite, mode: ModeKind::Base, info: b(unhex(e.info)), psk: b(vec![]), psk_id: b(vec![]) };
    ev.push(Ev::Keygen { k: 2 * c, kem: e.kem, ikm: b(e.ikm_r.as_bytes().to_vec()) });
    ev.push(Ev::SetupS { c, cfg: cfg.clone(), kr: 2 * c, ks: None, ks_pub: None, rng: b(unhex(e.ikm_e)), model_only: false });
    ev.push(Ev::SetupR { c, cfg: cfg.clone(), kr: 2 * c, ks: None, enc: EncSrc::Of(c), model_only: false });
    cfg
}

/// Session c between honest keys whose DH result is special (zero bytes at an end, zero checksum;
/// table in special.rs). False if the table has nothing for this KEM.
fn special_dh_session(ev: &mut Vec<Ev>, rng: &mut Prng, c: usize, cfg: &Cfg, s_model: bool, r_model: bool) -> bool {
    let kem = cfg.suite.kem;
    let cands: Vec<&crate::special::DhSpecial> = crate::special::DH_TABLE.iter().filter(|e| e.kem == kem).collect();
    if cands.is_empty() {
        return false;
    }
    let e = *rng.pick(&cands);
    ev.push(Ev::Keygen { k: 2 * c, kem, ikm: b(unhex(e.ikm_r)) });
    let (ks, script) = if cfg.mode.has_auth() && rng.chance(1, 2) {
        // the identity DH is the special one
        ev.push(Ev::Keygen { k: 2 * c + 1, kem, ikm: b(unhex(e.ikm_o)) });
        (Some(2 * c + 1), rng_script(rng, kem))
    } else {
        let ks = if cfg.mode.has_auth() {
            ev.push(Ev::Keygen { k: 2 * c + 1, kem, ikm: ikm(rng) });
            Some(2 * c + 1)
        } else {
            None
        };
        (ks, b(unhex(e.ikm_o)))
    };
    ev.push(Ev::SetupS { c, cfg: cfg.clone(), kr: 2 * c, ks, ks_pub: None, rng: script, model_only: s_model });
    ev.push(Ev::SetupR { c, cfg: cfg.clone(), kr: 2 * c, ks, enc: EncSrc::Of(c), model_only: r_model });
    true
}

/// X25519 private keys that are legal (every 32-byte string is) but special after clamping: all bits
/// that clamping does not force are clear (the scalar is 2^254), all set, only a clamped-away bit set,
/// the scalar that acts as -1 on the prime-order subgroup (5l - 1: DH returns the peer's own point),
/// tiny multiples of 8.
pub fn x25519_special_sk(rng: &mut Prng) -> Vec<u8> {
    let mut v = vec![0u8; 32];
    match rng.below(8) {
        0 => {}
        1 => v = vec![0xff; 32],
        2 => {
            v[0] = rng.range(1, 7) as u8;
            v[31] = *rng.pick(&[0x00u8, 0x40, 0x80, 0xc0]);
        }
        3 => v[31] = 0x40,
        4 => v = unhex("a023cdd083ef5bb82f10d62e59e15a6800000000000000000000000000000050"),
        5 => v[0] = 8 * rng.range(1, 31) as u8,
        6 => {
            let i = rng.below(32) as usize;
            v[i] = 1 << rng.below(8);
        }
        _ => {
            v[0] = 0xf8;
            v[31] = 0x7f;
            for b in v[1..31].iter_mut() {
                *b = 0xff;
            }
        }
    }
    v
}

fn setup_pair(ev: &mut Vec<Ev>, rng: &mut Prng, c: usize, cfg: &Cfg, s_model: bool, r_model: bool) {
    let kem = cfg.suite.kem;
    let nsk = kem.rfc_sizes().2;
    if rng.chance(1, 24) && special_dh_session(ev, rng, c, cfg, s_model, r_model) {
        return;
    }
    let mut ikm_r = if rng.chance(1, 30) { b(rng.rand_bytes(nsk)) } else { ikm(rng) };
    if rng.chance(1, 40) {
        let c: Vec<&crate::special::SkSpecial> = crate::special::SK_TABLE.iter().filter(|e| e.kem == kem).collect();
        if !c.is_empty() {
            ikm_r = b(unhex(rng.pick(&c).ikm));
        }
    }
    if rng.chance(1, 25) {
        // special private keys as the recipient's: scalar 1, 2, n-1, n-2 (NIST); for X25519 a private
        // key that differs from a derived one only in bits that RFC 7748 clamping discards (same
        // public key, so the session must work exactly as with the derived key)
        let (sk, pk) = if kem.is_nist() {
            let cv = math::curve(kem);
            let one = math::U::from_u64(1);
            let two = math::U::from_u64(2);
            let s_ = match rng.below(4) {
                0 => one,
                1 => two,
                2 => cv.n.sub(&one).0,
                _ => cv.n.sub(&two).0,
            };
            let sk = s_.to_be(nsk);
            let pk = refhpke::pk_of(kem, &sk).expect("special scalar has a public key");
            (sk, pk)
        } else if rng.chance(1, 2) {
            let sk = x25519_special_sk(rng);
            let pk = refhpke::pk_of(kem, &sk).expect("every 32-byte string is an X25519 private key");
            (sk, pk)
        } else {
            let (mut sk, pk, _) = refhpke::derive_keypair(kem, &ikm_r);
            sk[0] ^= 1 + rng.below(7) as u8; // low three bits
            if rng.chance(1, 2) {
                sk[31] ^= 0x80;
            }
            (sk, pk)
        };
        ev.push(Ev::KeyRaw { k: 2 * c, kem, sk: b(sk), pk: b(pk) });
    } else {
        ev.push(Ev::Keygen { k: 2 * c, kem, ikm: ikm_r.clone() });
    }
    let mut ikm_s: Option<B> = None;
    let ks = if cfg.mode.has_auth() {
        if rng.chance(1, 15) {
            // aliasing: a self-addressed authenticated session (sender identity = recipient key pair)
            Some(2 * c)
        } else {
            let i = if rng.chance(1, 10) { b(rng.rand_bytes(nsk)) } else { ikm(rng) };
            ikm_s = Some(i.clone());
            ev.push(Ev::Keygen { k: 2 * c + 1, kem, ikm: i });
            Some(2 * c + 1)
        }
    } else {
        None
    };
    // aliasing: the ephemeral key pair equals the recipient's, or the sender's identity key pair
    // (the caller's RNG returns the very bytes one of those keys was derived from)
    let script = if ikm_r.len() == nsk && rng.chance(1, 3) {
        ikm_r.clone()
    } else if ikm_s.as_ref().map(|i| i.len() == nsk).unwrap_or(false) && rng.chance(1, 2) {
        ikm_s.clone().unwrap()
    } else {
        rng_script(rng, kem)
    };
    let mut ks = ks;
    if kem.is_nist() && cfg.mode.has_auth() && rng.chance(1, 12) {
        // the sender's identity key is the *negation* of the ephemeral key this setup will draw
        // (skS = n - skE: same x-coordinate, so both DH results coincide although the keys differ)
        let (sk_e, _, _) = refhpke::derive_keypair(kem, &{
            let mut v = script.0.clone();
            v.resize(nsk, 0);
            v
        });
        let cv = math::curve(kem);
        let neg = cv.n.sub(&math::U::from_be(&sk_e)).0.to_be(nsk);
        if let Some(pk) = refhpke::pk_of(kem, &neg) {
            ev.push(Ev::KeyRaw { k: 2 * c + 1, kem, sk: b(neg), pk: b(pk) });
            ks = Some(2 * c + 1);
        }
    }
    ev.push(Ev::SetupS { c, cfg: cfg.clone(), kr: 2 * c, ks, ks_pub: None, rng: script.clone(), model_only: s_model });
    ev.push(Ev::SetupR { c, cfg: cfg.clone(), kr: 2 * c, ks, enc: EncSrc::Of(c), model_only: r_model });
    if kem == KemId::X25519 && cfg.mode.has_auth() && ikm_s.is_some() && rng.chance(1, 6) {
        // a second receiver that holds the sender's public key in its other encoding (bit 255 set):
        // RFC 9180 puts the bytes *as held* into kem_context, so this receiver derives other keys than
        // the sender - also when the ephemeral key happens to equal the identity key
        let (_, pk_s, _) = refhpke::derive_keypair(kem, ikm_s.as_ref().unwrap());
        ev.push(Ev::KeyRaw { k: 40 + c, kem, sk: b(vec![]), pk: b(math::x25519_twin(&pk_s)) });
        ev.push(Ev::SetupR { c: 20 + c, cfg: cfg.clone(), kr: 2 * c, ks: Some(40 + c), enc: EncSrc::Of(c), model_only: false });
        ev.push(Ev::Export { c: 20 + c, role: Role::R, ctx: b(vec![]), len: 32 });
    }
}

fn msg(rng: &mut Prng, big: bool) -> (B, B) {
    let cap = if big && rng.chance(1, 40) { 70001 } else { 300 };
    let mut pt = rng.var_bytes(cap);
    let mut aad = rng.var_bytes(cap.min(5000));
    if rng.chance(1, 12) {
        // packet / page / record sized messages (and now and then such an aad)
        let l = rng.sys_len();
        pt = rng.bytes(l);
        if rng.chance(1, 6) {
            let l = rng.sys_len();
            aad = rng.bytes(l);
        }
    }
    if !pt.is_empty() && rng.chance(1, 30) {
        // equal contents (the adapter then passes one buffer for both arguments)
        aad = pt.clone();
    }
    (b(pt), b(aad))
}

fn rng_big(rng: &mut Prng) -> bool {
    rng.chance(1, 4)
}

fn open_api(rng: &mut Prng) -> OpenApi {
    if rng.chance(1, 2) {
        OpenApi::Alloc
    } else {
        OpenApi::InPlace
    }
}

// ---------------------------------------------------------------------------------- C01

pub fn gen_c01(rng: &mut Prng, run: u64, t: &Tier) -> Vec<Ev> {
    let mut ev = vec![];
    if run == 5 || (t.thorough && run % 50_000 == 77) {
        // one world per batch moves more than 2^32 bytes through a single pair of contexts
        let aead = SEAL_AEADS[(run / 3 % 3) as usize];
        let cfg = gen_cfg(rng, SuiteId { kem: KemId::X25519, kdf: KdfId::S256, aead, shim: false }, ModeKind::Base, 10);
        setup_pair(&mut ev, rng, 0, &cfg, false, false);
        ev.push(Ev::VolumePump { c: 0, n: 66, len: 64 << 20 });
        ev.push(Ev::VolumePump { c: 0, n: 3, len: 1000 });
        return ev;
    }
    if run == 6 || (t.thorough && run % 50_000 == 78) {
        return single_huge_message(rng, run);
    }
    if t.thorough && run % 50_000 == 79 {
        return huge_alloc_case(rng, run);
    }
    let (suite, mode) = suite_mode_biased(run, rng, &SEAL_AEADS, false);
    let cfg = gen_cfg(rng, suite, mode, 300);
    let kem = suite.kem;
    match rng.below(8) {
        0 => {
            // one-message session through the single-shot forms
            ev.push(Ev::Keygen { k: 0, kem, ikm: ikm(rng) });
            let ks = if mode.has_auth() {
                if rng.chance(1, 12) {
                    Some(0) // self-addressed: sender identity = recipient key pair
                } else {
                    ev.push(Ev::Keygen { k: 1, kem, ikm: ikm(rng) });
                    Some(1)
                }
            } else {
                None
            };
            let (pt, aad) = msg(rng, true);
            ev.push(Ev::SingleShotSeal { c: 0, cfg: cfg.clone(), kr: 0, ks, ks_pub: None, rng: rng_script(rng, kem), pt, aad, inplace: rng.chance(1, 2) });
            ev.push(Ev::SetupR { c: 0, cfg: cfg.clone(), kr: 0, ks, enc: EncSrc::Of(0), model_only: false });
            let api = *rng.pick(&[OpenApi::SingleShot, OpenApi::SingleShotInPlace, OpenApi::Alloc, OpenApi::InPlace]);
            ev.push(Ev::Deliver { r: 0, from: 0, rec: RecRef::Next, fault: Fault::None, api });
        }
        _ => {
            ev.push(Ev::Keygen { k: 0, kem, ikm: ikm(rng) });
            let ks = if mode.has_auth() {
                if rng.chance(1, 12) {
                    Some(0) // self-addressed: sender identity = recipient key pair
                } else {
                    ev.push(Ev::Keygen { k: 1, kem, ikm: ikm(rng) });
                    Some(1)
                }
            } else {
                None
            };
            ev.push(Ev::SetupS { c: 0, cfg: cfg.clone(), kr: 0, ks, ks_pub: None, rng: rng_script(rng, kem), model_only: false });
            // the ENC record may be delayed: some seals happen before the receiver exists
            let early = if rng.chance(1, 3) { rng.range(1, 4) } else { 0 };
            for _ in 0..early {
                let (pt, aad) = msg(rng, true);
                ev.push(seal_ev(rng, 0, pt, aad));
            }
            ev.push(Ev::SetupR { c: 0, cfg: cfg.clone(), kr: 0, ks, enc: EncSrc::Of(0), model_only: false });
            for _ in 0..early {
                ev.push(Ev::Deliver { r: 0, from: 0, rec: RecRef::Next, fault: Fault::None, api: open_api(rng) });
            }
            let n = rng.range(0, 12);
            for _ in 0..n {
                let (pt, aad) = msg(rng, true);
                ev.push(seal_ev(rng, 0, pt, aad));
                ev.push(Ev::Deliver { r: 0, from: 0, rec: RecRef::Next, fault: Fault::None, api: open_api(rng) });
            }
            if rng.chance(1, 5) {
                // both peers continue from a far position (hook), then more in-order traffic
                let to = if rng.chance(2, 3) { *rng.pick(&jump_targets()) } else { rng.next_u64() };
                let to = to.min(u64::MAX - 4);
                ev.push(Ev::Jump { c: 0, role: Role::S, to });
                ev.push(Ev::Jump { c: 0, role: Role::R, to });
                for _ in 0..rng.range(1, 4) {
                    let (pt, aad) = msg(rng, false);
                    ev.push(seal_ev(rng, 0, pt, aad));
                    ev.push(Ev::Deliver { r: 0, from: 0, rec: RecRef::Next, fault: Fault::None, api: open_api(rng) });
                }
            }
            if rng.chance(1, 6) {
                // long history: the counter crosses 2^8 (and 2^16 in the thorough tier)
                let n = if (t.thorough && rng.chance(1, 4)) || rng.chance(1, 40) { 70_000 } else { 300 };
                ev.push(Ev::Pump { r: 0, from: 0, n, len: rng.range(0, 40), inplace_s: rng.chance(1, 2), inplace_r: rng.chance(1, 2) });
                let (pt, aad) = msg(rng, false);
                ev.push(Ev::Seal { c: 0, pt, aad, inplace: false });
                ev.push(Ev::Deliver { r: 0, from: 0, rec: RecRef::Next, fault: Fault::None, api: open_api(rng) });
            }
        }
    }
    if suite.kem == KemId::X25519 && rng.chance(1, 6) {
        // a recipient (or an authenticated sender) whose private key is special but legal
        let sk = x25519_special_sk(rng);
        let pk = refhpke::pk_of(suite.kem, &sk).unwrap();
        ev.push(Ev::KeyRaw { k: 12, kem: suite.kem, sk: b(sk), pk: b(pk) });
        ev.push(Ev::Keygen { k: 13, kem: suite.kem, ikm: ikm(rng) });
        let (kr6, ks6) = if cfg.mode.has_auth() && rng.chance(1, 2) { (13, Some(12)) } else { (12, if cfg.mode.has_auth() { Some(13) } else { None }) };
        ev.push(Ev::SetupS { c: 6, cfg: cfg.clone(), kr: kr6, ks: ks6, ks_pub: None, rng: rng_script(rng, suite.kem), model_only: false });
        ev.push(Ev::SetupR { c: 6, cfg: cfg.clone(), kr: kr6, ks: ks6, enc: EncSrc::Of(6), model_only: false });
        if suite.aead.seals() {
            for _ in 0..2 {
                let (pt, aad) = msg(rng, false);
                ev.push(seal_ev(rng, 6, pt, aad));
                ev.push(Ev::Deliver { r: 6, from: 6, rec: RecRef::Next, fault: Fault::None, api: open_api(rng) });
            }
        }
    }
    if rng.chance(1, 6) && special_dh_session(&mut ev, rng, 5, &cfg, false, false) && suite.aead.seals() {
        for _ in 0..2 {
            let (pt, aad) = msg(rng, false);
            ev.push(seal_ev(rng, 5, pt, aad));
            ev.push(Ev::Deliver { r: 5, from: 5, rec: RecRef::Next, fault: Fault::None, api: open_api(rng) });
        }
    }
    ev
}

// ---------------------------------------------------------------------------------- C02

pub fn gen_c02(rng: &mut Prng, run: u64, _t: &Tier) -> Vec<Ev> {
    let mut ev = vec![];
    let (suite, mode) = suite_mode_biased(run, rng, &ALL_AEADS, false);
    let cfg = gen_cfg(rng, suite, mode, 300);
    // c=0: real S -> model R ; c=1: model S -> real R ; c=2: real S -> real R
    setup_pair(&mut ev, rng, 0, &cfg, false, true);
    setup_pair(&mut ev, rng, 1, &cfg, true, false);
    setup_pair(&mut ev, rng, 2, &cfg, false, false);
    if suite.kem == KemId::X25519 && mode.has_auth() && rng.chance(1, 4) {
        // the sender's RNG returns the ikm of its own identity key (ephemeral = identity key pair), and
        // the receiver holds the sender's public key in its other encoding (bit 255 set): kem_context
        // takes the bytes as held, so the two sides must disagree exactly as the model says
        let ikm_s = rng.rand_bytes(32);
        let (_, pk_s, _) = refhpke::derive_keypair(suite.kem, &ikm_s);
        ev.push(Ev::Keygen { k: 30, kem: suite.kem, ikm: ikm(rng) });
        ev.push(Ev::Keygen { k: 31, kem: suite.kem, ikm: b(ikm_s.clone()) });
        ev.push(Ev::KeyRaw { k: 32, kem: suite.kem, sk: b(vec![]), pk: b(math::x25519_twin(&pk_s)) });
        ev.push(Ev::SetupS { c: 9, cfg: cfg.clone(), kr: 30, ks: Some(31), ks_pub: None, rng: b(ikm_s), model_only: false });
        ev.push(Ev::SetupR { c: 9, cfg: cfg.clone(), kr: 30, ks: Some(32), enc: EncSrc::Of(9), model_only: false });
        ev.push(Ev::Export { c: 9, role: Role::R, ctx: b(vec![]), len: 32 });
        ev.push(Ev::SetupR { c: 10, cfg: cfg.clone(), kr: 30, ks: Some(31), enc: EncSrc::Of(9), model_only: false });
        ev.push(Ev::ExportCmp { s: 9, r: 10, ctx: b(vec![]), len: 32 });
    }
    let seals = suite.aead.seals();
    let n = rng.range(1, 6);
    for _ in 0..n {
        for c in 0..3 {
            if seals {
                let (pt, aad) = msg(rng, true);
                ev.push(seal_ev(rng, c, pt, aad));
                ev.push(Ev::Deliver { r: c, from: c, rec: RecRef::Next, fault: Fault::None, api: open_api(rng) });
            }
            if rng.chance(1, 2) {
                let ctx = b(rng.var_bytes(200));
                let len = if rng.chance(1, 3) { rng.range(0, 8160) } else { *rng.pick(&[0usize, 1, 16, 31, 32, 33, 48, 64, 65, 100, 255, 256, 257, 1000, 255 * 32]) };
                ev.push(Ev::Export { c, role: Role::S, ctx: ctx.clone(), len });
                ev.push(Ev::Export { c, role: Role::R, ctx, len });
            }
        }
    }
    if seals && rng.chance(1, 2) {
        // RFC 9180 ContextR.Open uses exactly the receiver's own sequence number: a record sealed one
        // position ahead (the previous one lost or late) is refused, and the late one still opens
        for c in 1..3 {
            for _ in 0..2 {
                let (pt, aad) = msg(rng, false);
                ev.push(seal_ev(rng, c, pt, aad));
            }
            ev.push(Ev::Deliver { r: c, from: c, rec: RecRef::Ahead(1), fault: Fault::None, api: open_api(rng) });
            ev.push(Ev::Deliver { r: c, from: c, rec: RecRef::Next, fault: Fault::None, api: open_api(rng) });
            ev.push(Ev::Deliver { r: c, from: c, rec: RecRef::Next, fault: Fault::None, api: open_api(rng) });
        }
    }
    if seals {
        // single-shot forms against the model: a real single-shot seal (its composed twin is compared
        // with refhpke byte for byte), and real single-shot opens of model-produced first messages
        let kem = suite.kem;
        ev.push(Ev::Keygen { k: 20, kem, ikm: ikm(rng) });
        let ks = if mode.has_auth() {
            ev.push(Ev::Keygen { k: 21, kem, ikm: ikm(rng) });
            Some(21)
        } else {
            None
        };
        let (pt, aad) = msg(rng, false);
        ev.push(Ev::SingleShotSeal { c: 4, cfg: cfg.clone(), kr: 20, ks, ks_pub: None, rng: rng_script(rng, kem), pt, aad, inplace: rng.chance(1, 2) });
        ev.push(Ev::SetupR { c: 4, cfg: cfg.clone(), kr: 20, ks, enc: EncSrc::Of(4), model_only: true });
        ev.push(Ev::Deliver { r: 4, from: 4, rec: RecRef::Next, fault: Fault::None, api: OpenApi::Alloc });
        for api in [OpenApi::SingleShot, OpenApi::SingleShotInPlace] {
            ev.push(Ev::Deliver { r: 1, from: 1, rec: RecRef::Index(0), fault: Fault::None, api });
        }
    }
    if rng.chance(1, 6) {
        // a receiver whose encapsulated key is a valid key that makes the DH result special (x = 0, ...)
        let ikm_r = rng.rand_bytes(32);
        let (sk_r, _, _) = refhpke::derive_keypair(suite.kem, &ikm_r);
        if let Some(enc) = dh_partner(rng, suite.kem, &sk_r) {
            let mut c0 = cfg.clone();
            c0.mode = if mode.has_psk() { ModeKind::Psk } else { ModeKind::Base };
            ev.push(Ev::Keygen { k: 30, kem: suite.kem, ikm: b(ikm_r) });
            ev.push(Ev::SetupR { c: 8, cfg: c0, kr: 30, ks: None, enc: EncSrc::Raw(b(enc)), model_only: false });
            ev.push(Ev::Export { c: 8, role: Role::R, ctx: b(vec![1, 2]), len: 48 });
        }
    }
    if seals && rng.chance(1, 5) {
        // counters cross 2^8
        for c in 0..3 {
            ev.push(Ev::Pump { r: c, from: c, n: 260, len: rng.range(0, 20), inplace_s: false, inplace_r: false });
        }
    }
    if seals && rng.chance(1, 2) {
        // both peers of every pairing continue from a far position (hook): ComputeNonce must agree
        // with the RFC for every byte of the counter
        let targets = jump_targets();
        let mut picks: Vec<usize> = (0..rng.range(1, 3)).map(|_| rng.below(targets.len() as u64) as usize).collect();
        picks.sort();
        picks.dedup();
        for pos in picks {
            let mut to = targets[pos];
            if rng.chance(1, 3) {
                to = to.saturating_add(rng.below(1 << 20)).min(u64::MAX - 4);
            }
            for c in 0..3 {
                ev.push(Ev::Jump { c, role: Role::S, to });
                ev.push(Ev::Jump { c, role: Role::R, to });
                for _ in 0..2 {
                    let (pt, aad) = msg(rng, false);
                    ev.push(seal_ev(rng, c, pt, aad));
                    ev.push(Ev::Deliver { r: c, from: c, rec: RecRef::Next, fault: Fault::None, api: open_api(rng) });
                }
            }
        }
    }
    ev
}

// ---------------------------------------------------------------------------------- C03

pub const P256_RETRY_IKM: [&str; 3] = ["00000007044f20b3", "0000000b09d5b28e", "00000002328b1efb"];
/// 32-byte RNG outputs whose first P-256 DeriveKeyPair candidate is >= n (found by a 2^32-scale search;
/// checked against refhpke at generation time: unused if the model does not take the retry path)
pub const P256_RETRY_RNG: [&str; 1] = ["a0a1a2a3a4a5a6a7a8a9aaabacadaeafb0b1b2b3b4b5b60a0000000006334a16"];

pub fn gen_c03(rng: &mut Prng, run: u64, _t: &Tier) -> Vec<Ev> {
    let mut ev = vec![];
    let kem = KEMS[(run % 4) as usize];
    // DeriveKeyPair over ikm lengths and byte classes
    let n = rng.range(2, 6);
    for _ in 0..n {
        let l = match rng.below(8) {
            0 => 0,
            1 => rng.range(1, 31),
            2 => 32,
            3 => rng.range(33, 200),
            4 => 1024,
            5 => 65536 + rng.range(0, 3),
            _ => rng.range(0, 200),
        };
        ev.push(Ev::DeriveProbe { kem, ikm: b(rng.bytes(l)) });
    }
    if kem == KemId::P256 {
        let s = P256_RETRY_IKM[(run / 4 % 3) as usize];
        ev.push(Ev::DeriveProbe { kem, ikm: b(unhex(s)) });
    }
    for e in crate::special::SK_TABLE.iter().filter(|e| e.kem == kem) {
        // ikm whose first candidate starts with ffffffff / 00000000 (valid scalars: must be taken)
        if rng.chance(1, 3) {
            ev.push(Ev::DeriveProbe { kem, ikm: b(unhex(e.ikm)) });
        }
    }
    ev.push(Ev::GenProbe { kem, rng: rng_script(rng, kem) });
    ev.push(Ev::Keygen { k: 0, kem, ikm: ikm(rng) });
    ev.push(Ev::Keygen { k: 1, kem, ikm: ikm(rng) });
    ev.push(Ev::KeygenRng { k: 2, kem, rng: rng_script(rng, kem) });
    ev.push(Ev::KemProbe { kem, kr: 0, ks: None, rng: rng_script(rng, kem) });
    ev.push(Ev::KemProbe { kem, kr: 0, ks: Some(1), rng: rng_script(rng, kem) });
    ev.push(Ev::KemProbe { kem, kr: 2, ks: Some(0), rng: rng_script(rng, kem) });
    if kem.is_nist() && rng.chance(1, 3) {
        // the extreme legal private keys (1, 2, n-2, n-1) as recipient key and as sender identity key
        let cv = math::curve(kem);
        let nsk = kem.rfc_sizes().2;
        let one = math::U::from_u64(1);
        let sc = match rng.below(4) {
            0 => one,
            1 => math::U::from_u64(2),
            2 => cv.n.sub(&math::U::from_u64(2)).0,
            _ => cv.n.sub(&one).0,
        };
        let sk = sc.to_be(nsk);
        if let Some(pk) = refhpke::pk_of(kem, &sk) {
            ev.push(Ev::KeyRaw { k: 13, kem, sk: b(sk), pk: b(pk) });
            ev.push(Ev::KemProbe { kem, kr: 13, ks: Some(1), rng: rng_script(rng, kem) });
            ev.push(Ev::KemProbe { kem, kr: 0, ks: Some(13), rng: rng_script(rng, kem) });
        }
    }
    if kem.is_nist() && rng.chance(1, 4) {
        // AuthEncap where the identity private key is the negation of the ephemeral one (n - skE): the
        // two public keys differ, the two DH x-coordinates coincide
        let script = rng.rand_bytes(kem.rfc_sizes().2);
        let (sk_e, _, _) = refhpke::derive_keypair(kem, &script);
        let cv = math::curve(kem);
        let neg = cv.n.sub(&math::U::from_be(&sk_e)).0.to_be(sk_e.len());
        if let Some(pk) = refhpke::pk_of(kem, &neg) {
            ev.push(Ev::KeyRaw { k: 12, kem, sk: b(neg), pk: b(pk) });
            ev.push(Ev::KemProbe { kem, kr: 0, ks: Some(12), rng: b(script) });
        }
    }
    if kem == KemId::X25519 && rng.chance(1, 4) {
        // AuthEncap / AuthDecap where the ephemeral key pair *is* the identity key pair (the RNG returns
        // its ikm) and the identity public key is held in its other encoding (bit 255 set)
        let ikm_s = rng.rand_bytes(32);
        let (sk_s, pk_s, _) = refhpke::derive_keypair(kem, &ikm_s);
        let held = if rng.chance(2, 3) { math::x25519_twin(&pk_s) } else { pk_s };
        ev.push(Ev::KeyRaw { k: 11, kem, sk: b(sk_s), pk: b(held) });
        ev.push(Ev::KemProbe { kem, kr: 0, ks: Some(11), rng: b(ikm_s) });
    }
    if kem == KemId::X25519 && rng.chance(1, 2) {
        // any 32-byte string that is not of small order is a usable recipient key: tiny u-coordinates,
        // points on the quadratic twist (half of all strings), non-canonical values
        let mut pk = rng.rand_bytes(32);
        if rng.chance(1, 2) {
            pk = vec![0u8; 32];
            pk[0] = rng.range(2, 60) as u8;
        }
        ev.push(Ev::KeyRaw { k: 10, kem, sk: b(vec![]), pk: b(pk) });
        let mode = if rng.chance(1, 2) { ModeKind::Base } else { ModeKind::Auth };
        let cfg = gen_cfg(rng, SuiteId { kem, kdf: kem.kem_kdf(), aead: AeadId::ChaCha, shim: false }, mode, 10);
        ev.push(Ev::SetupS { c: 8, cfg, kr: 10, ks: if mode.has_auth() { Some(1) } else { None }, ks_pub: None, rng: rng_script(rng, kem), model_only: false });
        ev.push(Ev::KemProbe { kem, kr: 10, ks: Some(1), rng: rng_script(rng, kem) });
    }
    if rng.chance(1, 4) {
        let m = *rng.pick(&MODES);
        let cfg = gen_cfg(rng, SuiteId { kem, kdf: kem.kem_kdf(), aead: AeadId::ChaCha, shim: false }, m, 10);
        special_dh_session(&mut ev, rng, 6, &cfg, false, true);
    }
    if rng.chance(1, 3) {
        // valid keys whose DH result is special (x-coordinate 0, tiny, >= n, mostly zero bytes: must work)
        let script = b(rng.rand_bytes(kem.rfc_sizes().2));
        let (sk_e, _, _) = refhpke::derive_keypair(kem, &script);
        if let Some(pk_r) = dh_partner(rng, kem, &sk_e) {
            ev.push(Ev::KeyRaw { k: 6, kem, sk: b(vec![]), pk: b(pk_r) });
            let cfg = gen_cfg(rng, SuiteId { kem, kdf: kem.kem_kdf(), aead: AeadId::ChaCha, shim: false }, ModeKind::Base, 10);
            ev.push(Ev::SetupS { c: 6, cfg: cfg.clone(), kr: 6, ks: None, ks_pub: None, rng: script, model_only: false });
            ev.push(Ev::Export { c: 6, role: Role::S, ctx: b(vec![]), len: 32 });
        }
        let ikm_r = rng.rand_bytes(32);
        let (sk_r, _, _) = refhpke::derive_keypair(kem, &ikm_r);
        if let Some(enc) = dh_partner(rng, kem, &sk_r) {
            ev.push(Ev::Keygen { k: 7, kem, ikm: b(ikm_r) });
            let mode = if rng.chance(1, 2) { ModeKind::Base } else { ModeKind::Auth };
            let cfg = gen_cfg(rng, SuiteId { kem, kdf: kem.kem_kdf(), aead: AeadId::ChaCha, shim: false }, mode, 10);
            ev.push(Ev::Keygen { k: 8, kem, ikm: ikm(rng) });
            // Base: zero-x ephemeral DH; Auth: honest-looking enc = the partner point too, and the
            // identity key is the partner point (zero-x identity DH)
            ev.push(Ev::KeyRaw { k: 9, kem, sk: b(vec![]), pk: b(enc.clone()) });
            ev.push(Ev::SetupR { c: 7, cfg: cfg.clone(), kr: 7, ks: if mode.has_auth() { Some(9) } else { None }, enc: if mode.has_auth() { EncSrc::Raw(b(refhpke::derive_keypair(kem, &rng.rand_bytes(32)).1)) } else { EncSrc::Raw(b(enc)) }, model_only: false });
            ev.push(Ev::Export { c: 7, role: Role::R, ctx: b(vec![]), len: 32 });
        }
    }
    ev
}

// ---------------------------------------------------------------------------------- C04

/// One message of more than 2^32 bytes (legal for all three AEADs), then ordinary traffic on the same
/// contexts: positions, nonces and counters must be those of any other message
fn single_huge_message(rng: &mut Prng, run: u64) -> Vec<Ev> {
    let mut ev = vec![];
    let aead = SEAL_AEADS[(run / 3 % 3) as usize];
    let cfg = gen_cfg(rng, SuiteId { kem: KemId::X25519, kdf: KdfId::S256, aead, shim: false }, ModeKind::Base, 10);
    setup_pair(&mut ev, rng, 0, &cfg, false, false);
    ev.push(Ev::Pump { r: 0, from: 0, n: 2, len: 9, inplace_s: false, inplace_r: false });
    ev.push(Ev::VolumePump { c: 0, n: 1, len: (1usize << 32) + 17 });
    for _ in 0..3 {
        let (pt, aad) = msg(rng, false);
        ev.push(seal_ev(rng, 0, pt, aad));
        ev.push(Ev::Deliver { r: 0, from: 0, rec: RecRef::Next, fault: Fault::None, api: OpenApi::Alloc });
    }
    ev
}

/// The allocating seal/open with a plaintext and an aad of 2^31 bytes each (and other splits whose sum
/// passes 2^32), then ordinary traffic
fn huge_alloc_case(rng: &mut Prng, run: u64) -> Vec<Ev> {
    let mut ev = vec![];
    let aead = SEAL_AEADS[(run / 3 % 3) as usize];
    let cfg = gen_cfg(rng, SuiteId { kem: KemId::X25519, kdf: KdfId::S256, aead, shim: false }, ModeKind::Base, 10);
    setup_pair(&mut ev, rng, 0, &cfg, false, false);
    let (a, c) = *rng.pick(&[(1u64 << 31, 1u64 << 31), ((1 << 31) + 5, (1 << 31) - 5), ((1 << 32) - 16, 16), (3 << 30, 1 << 30)]);
    ev.push(Ev::HugeAlloc { c: 0, pt_len: a, aad_len: c });
    for _ in 0..2 {
        let (pt, aad) = msg(rng, false);
        ev.push(Ev::Seal { c: 0, pt, aad, inplace: rng.chance(1, 2) });
        ev.push(Ev::Deliver { r: 0, from: 0, rec: RecRef::Next, fault: Fault::None, api: OpenApi::Alloc });
    }
    ev
}

pub fn gen_c04(rng: &mut Prng, run: u64, t: &Tier) -> Vec<Ev> {
    if run == 6 || (t.thorough && run % 100_000 == 78) {
        return single_huge_message(rng, run);
    }
    let mut ev = vec![];
    let shim = run % 4 != 3;
    let aead = SEAL_AEADS[(run % 3) as usize];
    let kem = if rng.chance(1, 10) { KemId::P256 } else { KemId::X25519 };
    let suite = SuiteId { kem, kdf: KDFS[(run / 3 % 3) as usize], aead, shim };
    let mode = MODES[(run / 9 % 4) as usize];
    let cfg = gen_cfg(rng, suite, mode, 64);
    setup_pair(&mut ev, rng, 0, &cfg, false, false);
    let targets = jump_targets();
    // walk upwards through a random subset of the boundary targets
    let mut pos_idx = 0usize;
    let start_jump = rng.chance(1, 3);
    let steps = rng.range(4, 30);
    for step in 0..steps {
        let choice = rng.below(10);
        if (step == 0 && start_jump) || choice < 3 {
            if pos_idx < targets.len() {
                // upwards through the whole list: the expected stride spreads the (about three in ten
                // steps) jumps of this run over all targets, small strides now and then
                let stride = (targets.len() * 10 / (3 * steps)).max(2);
                let skip = if rng.chance(1, 4) { rng.geometric(12) } else { rng.range(0, 2 * stride) };
                pos_idx = (pos_idx + skip).min(targets.len() - 1);
                let mut to = targets[pos_idx];
                if rng.chance(1, 4) && pos_idx + 1 < targets.len() {
                    // somewhere strictly between two boundary targets
                    let hi = targets[pos_idx + 1];
                    to += rng.below((hi - to).max(1));
                }
                pos_idx += 1;
                if rng.chance(1, 8) {
                    let pat = if rng.chance(1, 2) { u64::MAX - rng.below(3) } else { *rng.pick(&targets) };
                    ev.push(Ev::JumpNonceXor { c: 0, role: Role::S, pat });
                    if !shim {
                        ev.push(Ev::JumpNonceXor { c: 0, role: Role::R, pat });
                    }
                } else if rng.chance(1, 5) {
                    let keep_top = rng.range(1, 8) as u8;
                    let low = if rng.chance(1, 2) { rng.below(300) } else { rng.next_u64() };
                    ev.push(Ev::JumpNonceRel { c: 0, role: Role::S, keep_top, low });
                    if !shim {
                        ev.push(Ev::JumpNonceRel { c: 0, role: Role::R, keep_top, low });
                    }
                } else {
                    ev.push(Ev::Jump { c: 0, role: Role::S, to });
                    if !shim {
                        ev.push(Ev::Jump { c: 0, role: Role::R, to });
                    }
                }
            }
        } else if choice == 3 && shim && step > 0 {
            ev.push(Ev::FailNextSeal { c: 0 });
        } else if choice == 4 {
            ev.push(Ev::SealMany { c: 0, n: rng.range(2, 6) as u32, len: rng.range(0, 33), inplace: rng.chance(1, 2) });
            continue;
        } else if choice == 5 {
            // an export (a &self operation) between two seals must not disturb the sequence
            let len = *rng.pick(&[0usize, 1, 16, 32, 64, 100, 8160, 8161, 70000]);
            ev.push(Ev::Export { c: 0, role: Role::S, ctx: b(rng.var_bytes(40)), len });
        }
        let k = rng.range(1, 3);
        for _ in 0..k {
            let (pt, aad) = msg(rng, false);
            ev.push(seal_ev(rng, 0, pt, aad));
            if !shim {
                ev.push(Ev::Deliver { r: 0, from: 0, rec: RecRef::Next, fault: Fault::None, api: open_api(rng) });
            }
        }
    }
    if rng.chance(1, 2) {
        // drive into exhaustion and keep calling
        ev.push(Ev::Jump { c: 0, role: Role::S, to: u64::MAX - rng.below(3) });
        for _ in 0..rng.range(3, 8) {
            let (pt, aad) = msg(rng, false);
            ev.push(seal_ev(rng, 0, pt, aad));
            if rng.chance(1, 4) && shim {
                ev.push(Ev::FailNextSeal { c: 0 });
            }
        }
    }
    if rng.chance(1, 8) {
        // hook-free stretch across carry boundaries (fresh context)
        let cfg2 = gen_cfg(rng, suite, ModeKind::Base, 16);
        setup_pair(&mut ev, rng, 1, &cfg2, false, false);
        let n = if (t.thorough && rng.chance(1, 3)) || rng.chance(1, 12) { 70_000 } else { 600 };
        ev.push(Ev::SealMany { c: 1, n, len: rng.range(0, 9), inplace: true });
    }
    ev
}

// ---------------------------------------------------------------------------------- histories (C05 and friends)

fn gen_fault(rng: &mut Prng) -> Fault {
    match rng.below(15) {
        0 | 1 => Fault::BitFlip(Field::Ct, rng.below(1 << 20) as usize),
        2 | 3 => Fault::BitFlip(Field::Tag, rng.below(128) as usize),
        4 => Fault::BitFlip(Field::Aad, rng.below(1 << 20) as usize),
        5 => Fault::Truncate(*rng.pick(&[0usize, 1, 15, 16, 17]) + if rng.chance(1, 2) { rng.below(400) as usize } else { 0 }),
        6 => Fault::Extend(b(rng.var_bytes(40).into_iter().chain(std::iter::once(0)).collect())),
        7 => Fault::SpliceTag(rng.below(8) as usize),
        8 => Fault::SpliceAad(rng.below(8) as usize),
        9 => Fault::SwapCt(rng.below(8) as usize),
        10 => Fault::WrongAad(b(rng.var_bytes(64))),
        11 => {
            let l = *rng.pick(&[0usize, 1, 15, 16, 17, 31, 32, 33, 64, 1000, 70001]);
            Fault::Garbage(b(rng.bytes(l)))
        }
        12 => {
            if rng.chance(1, 2) {
                Fault::Insert(b(vec![0u8; rng.range(1, 17)]))
            } else {
                { let l = rng.range(1, 17); Fault::TagExtend(b(rng.bytes(l))) }
            }
        }
        13 => Fault::ByteSet(*rng.pick(&[Field::Ct, Field::Tag, Field::Aad]), *rng.pick(&[0i32, 1, -1, -2]), *rng.pick(&[0u8, 1, 0x7f, 0x80, 0xff])),
        14 if rng.chance(1, 2) => Fault::PlaintextAsBody(rng.below(8) as usize, rng.chance(3, 4)),
        _ => Fault::Truncate(rng.below(1 << 16) as usize),
    }
}

pub struct HistOpts {
    pub sessions: usize,
    pub steps: usize,
    pub jumps: bool,
    pub exports: bool,
    pub teardown: bool,
    pub restart: bool,
    pub single_shot: bool,
    pub shim_ok: bool,
    pub aeads: &'static [AeadId],
    pub export_lens: Vec<usize>,
    pub fault_rate: u64, // per 16
}

pub fn gen_history(rng: &mut Prng, run: u64, o: &HistOpts) -> Vec<Ev> {
    let mut ev = vec![];
    let mut cfgs: Vec<Cfg> = vec![];
    let targets = jump_targets();
    for c in 0..o.sessions {
        let (mut suite, mode) = suite_mode_biased(run.wrapping_mul(3).wrapping_add(c as u64), rng, o.aeads, false);
        if o.shim_ok && suite.aead.seals() && rng.chance(1, 3) {
            suite.shim = true;
        }
        if rng.chance(1, 30) {
            let cfg = special_ks_session(&mut ev, rng, c, o.shim_ok);
            cfgs.push(cfg);
            continue;
        }
        let cfg = if c > 0 && rng.chance(1, 4) { cfgs[0usize].clone() } else { gen_cfg(rng, suite, mode, 100) };
        setup_pair(&mut ev, rng, c, &cfg, false, false);
        cfgs.push(cfg);
    }
    let ns = o.sessions;
    let sched = rng.below(3); // 0 uniform, 1 bursty, 2 sender-heavy
    let mut cur = 0usize;
    let mut after_special = false;
    for _ in 0..o.steps {
        if sched != 1 || rng.chance(1, 5) {
            cur = rng.below(ns as u64) as usize;
        }
        let c = cur;
        let seals = cfgs[c].suite.aead.seals();
        let faulty = rng.below(16) < o.fault_rate || (after_special && rng.chance(1, 2));
        after_special = false;
        let roll = rng.below(100);
        if roll < 30 || (sched == 2 && roll < 50) {
            let big = rng_big(rng);
            let (pt, aad) = msg(rng, big);
            ev.push(seal_ev(rng, c, pt, aad));
        } else if roll < 70 {
            let from = if faulty && ns > 1 && rng.chance(1, 6) { rng.below(ns as u64) as usize } else { c };
            let rec = if !faulty {
                RecRef::Next
            } else {
                match rng.below(6) {
                    0 => RecRef::Back(1 + rng.geometric(5) as u64),
                    1 => RecRef::Ahead(1 + rng.geometric(5) as u64),
                    2 => RecRef::Index(rng.below(64) as usize),
                    _ => RecRef::Next,
                }
            };
            let fault = if faulty && rng.chance(2, 3) { gen_fault(rng) } else { Fault::None };
            let api = if o.single_shot && rng.chance(1, 10) {
                if rng.chance(1, 2) { OpenApi::SingleShot } else { OpenApi::SingleShotInPlace }
            } else {
                open_api(rng)
            };
            ev.push(Ev::Deliver { r: c, from, rec, fault, api });
        } else if roll < 76 && o.jumps && seals {
            let to = if rng.chance(3, 4) { *rng.pick(&targets) } else { rng.next_u64() };
            if rng.chance(1, 8) {
                // the position at which the counter part of the *mixed* nonce is all ones, 2^k - 1, ...
                let pat = if rng.chance(1, 2) { u64::MAX - rng.below(3) } else { *rng.pick(&targets) };
                if !rng.chance(1, 4) {
                    ev.push(Ev::JumpNonceXor { c, role: Role::S, pat });
                }
                ev.push(Ev::JumpNonceXor { c, role: Role::R, pat });
            } else if rng.chance(1, 4) {
                // a position whose top bytes equal those of the base nonce (its low bytes: a small
                // number, e.g. the position of an earlier record)
                let keep_top = rng.range(1, 8) as u8;
                let low = if rng.chance(3, 4) { rng.below(6) } else { rng.next_u64() };
                if !rng.chance(1, 4) {
                    ev.push(Ev::JumpNonceRel { c, role: Role::S, keep_top, low });
                }
                ev.push(Ev::JumpNonceRel { c, role: Role::R, keep_top, low });
            } else {
                match rng.below(4) {
                    0 => ev.push(Ev::Jump { c, role: Role::R, to }),
                    _ => {
                        ev.push(Ev::Jump { c, role: Role::S, to });
                        ev.push(Ev::Jump { c, role: Role::R, to });
                    }
                }
            }
            if rng.chance(1, 2) {
                // nothing sealed before the jump may be accepted at the new position, nor once the
                // receiver has moved a little further
                for i in 0..6 {
                    ev.push(Ev::Deliver { r: c, from: c, rec: RecRef::Index(i), fault: Fault::None, api: open_api(rng) });
                }
                let (pt, aad) = msg(rng, false);
                ev.push(seal_ev(rng, c, pt, aad));
                ev.push(Ev::Deliver { r: c, from: c, rec: RecRef::Next, fault: Fault::None, api: open_api(rng) });
                for i in 0..6 {
                    ev.push(Ev::Deliver { r: c, from: c, rec: RecRef::Index(i), fault: Fault::None, api: open_api(rng) });
                }
            }
            after_special = true;
        } else if roll < 84 && o.exports {
            let len = if !o.export_lens.is_empty() && rng.chance(1, 2) { *rng.pick(&o.export_lens) } else { rng.range(0, 80) };
            let cap = if rng.chance(1, 50) { 70001 } else { 100 };
            let ctx = b(rng.var_bytes(cap));
            let role = if rng.chance(1, 2) { Role::S } else { Role::R };
            ev.push(Ev::Export { c, role, ctx: ctx.clone(), len });
            if rng.chance(1, 3) {
                ev.push(Ev::Export { c, role: if role == Role::S { Role::R } else { Role::S }, ctx: ctx.clone(), len });
            }
            if rng.chance(1, 3) {
                // the same exporter context again with other lengths (shorter, longer, equal): every
                // export is a function of (context, length) alone, not of the previous export
                for _ in 0..rng.range(1, 3) {
                    let l2 = match rng.below(4) {
                        0 => len / 2,
                        1 => len.saturating_sub(1),
                        2 => len + 1 + rng.range(0, 40),
                        _ => len,
                    };
                    ev.push(Ev::Export { c, role, ctx: ctx.clone(), len: l2 });
                }
            }
        } else if roll < 88 && o.restart {
            // receiver restart from its durable inputs (skR, enc, info)
            let cfg = cfgs[c].clone();
            ev.push(Ev::SetupR { c, cfg: cfg.clone(), kr: 2 * c, ks: if cfg.mode.has_auth() { Some(2 * c + 1) } else { None }, enc: EncSrc::Of(c), model_only: false });
            after_special = true;
        } else if roll < 91 && cfgs[c].suite.shim && rng.chance(1, 2) {
            // transient decryption fault at the receiver: refused once, then the same message opens
            ev.push(Ev::FailNextOpen { r: c });
            for _ in 0..2 {
                ev.push(Ev::Deliver { r: c, from: c, rec: RecRef::Next, fault: Fault::None, api: open_api(rng) });
            }
            after_special = true;
        } else if roll < 91 && cfgs[c].suite.shim {
            ev.push(Ev::FailNextSeal { c });
            let (pt, aad) = msg(rng, false);
            ev.push(seal_ev(rng, c, pt, aad));
            after_special = true;
        } else if roll < 94 && o.teardown {
            let role = if rng.chance(1, 2) { Role::S } else { Role::R };
            if rng.chance(1, 3) {
                ev.push(Ev::TeardownUnwinding { c, role });
            } else {
                ev.push(Ev::Teardown { c, role });
            }
        } else if roll < 97 {
            let l = *rng.pick(&[0usize, 1, 15, 16, 17, 40, 300]);
            let tag = if rng.chance(1, 2) { Some(b({ let l = *rng.pick(&[0usize, 15, 16, 16, 16, 17]); rng.bytes(l) })) } else { None };
            ev.push(Ev::RawOpen { r: c, ct: b(rng.bytes(l)), aad: b(rng.var_bytes(20)), tag });
        } else {
            let (pt, aad) = msg(rng, false);
            ev.push(seal_ev(rng, c, pt, aad));
            ev.push(Ev::Deliver { r: c, from: c, rec: RecRef::Next, fault: Fault::None, api: open_api(rng) });
        }
    }
    if o.jumps && rng.chance(1, 40) {
        ev.push(Ev::RejectBurst { r: 0, from: 0, n: *rng.pick(&[300u32, 66_000]) });
        ev.push(Ev::Deliver { r: 0, from: 0, rec: RecRef::Next, fault: Fault::BitFlip(Field::Tag, 3), api: OpenApi::Alloc });
    }
    if o.jumps && rng.chance(1, 6) {
        for c in 0..ns {
            if cfgs[c].suite.aead.seals() {
                ev.push(Ev::SealMany { c, n: 300, len: 0, inplace: rng.chance(1, 2) });
                ev.push(Ev::StripZerosProbe { r: c, from: c });
            }
        }
    }
    // Heal: faults stop; the sender seals a few more messages and the wire delivers everything
    // from the receiver's position in order. Each of these deliveries must succeed at once.
    for c in 0..ns {
        if !cfgs[c].suite.aead.seals() {
            continue;
        }
        let k = rng.range(1, 3);
        for _ in 0..k {
            let (pt, aad) = msg(rng, false);
            ev.push(seal_ev(rng, c, pt, aad));
        }
        for _ in 0..k + 3 {
            ev.push(Ev::Deliver { r: c, from: c, rec: RecRef::Next, fault: Fault::None, api: open_api(rng) });
        }
    }
    ev
}

pub fn gen_c05(rng: &mut Prng, run: u64, t: &Tier) -> Vec<Ev> {
    if run == 7 || (t.thorough && run % 50_000 == 79) {
        return huge_alloc_case(rng, run);
    }
    let o = HistOpts {
        sessions: rng.range(1, 3),
        steps: if t.thorough && rng.chance(1, 10) { 2000 } else { rng.range(10, 120) },
        jumps: true,
        exports: rng.chance(1, 3),
        teardown: false,
        restart: true,
        single_shot: true,
        shim_ok: true,
        aeads: &SEAL_AEADS,
        export_lens: vec![],
        fault_rate: *rng.pick(&[0u64, 2, 5, 10]),
    };
    gen_history(rng, run, &o)
}

// ---------------------------------------------------------------------------------- C06

pub fn gen_c06(rng: &mut Prng, run: u64, t: &Tier) -> Vec<Ev> {
    let mut ev = vec![];
    let aead = SEAL_AEADS[(run % 3) as usize];
    let kem = if rng.chance(1, 12) { KemId::P256 } else { KemId::X25519 };
    let suite = SuiteId { kem, kdf: KDFS[(run / 3 % 3) as usize], aead, shim: false };
    let mode = MODES[(run / 9 % 4) as usize];
    let cfg = gen_cfg(rng, suite, mode, 64);
    setup_pair(&mut ev, rng, 0, &cfg, false, false);
    let nrec = rng.range(1, 4);
    let max_bits = if t.thorough { 65536 } else { 4096 };
    if rng.chance(1, 2) {
        let to = if rng.chance(2, 3) { *rng.pick(&jump_targets()) } else { rng.next_u64() };
        // the last of the nrec records may sit exactly on 2^64-1, the last admissible position
        let to = to.min(u64::MAX - (nrec as u64 - 1));
        ev.push(Ev::Jump { c: 0, role: Role::S, to });
        ev.push(Ev::Jump { c: 0, role: Role::R, to });
    }
    for _ in 0..nrec {
        let cap = if t.thorough && rng.chance(1, 10) { 5000 } else { 200 };
        let pt = b(rng.var_bytes(cap));
        let aad = b(rng.var_bytes(cap / 2));
        ev.push(seal_ev(rng, 0, pt, aad));
    }
    for i in 0..nrec {
        let api = match rng.below(6) {
            0 | 1 => OpenApi::Alloc,
            2 | 3 => OpenApi::InPlace,
            4 => OpenApi::SingleShot,
            _ => OpenApi::SingleShotInPlace,
        };
        let rec = if matches!(api, OpenApi::SingleShot | OpenApi::SingleShotInPlace) { 0 } else { i };
        ev.push(Ev::TamperSweep { r: 0, from: 0, rec, api, max_bits, only: None });
    }
    // content-dependent adversary: many empty / short messages, then every record whose tag happens
    // to end in zero bytes is delivered with those bytes stripped
    if rng.chance(1, 2) {
        let n = if t.thorough { 3000 } else { 700 };
        ev.push(Ev::SealMany { c: 0, n, len: *rng.pick(&[0usize, 0, 0, 1, 5]), inplace: rng.chance(1, 2) });
        ev.push(Ev::StripZerosProbe { r: 0, from: 0 });
    }
    // a message longer than 2^16 bytes (length arithmetic in narrower integers): strided sweep
    if rng.chance(1, 30) {
        let l = *rng.pick(&[65536usize, 65537, 65552, 70001]);
        ev.push(Ev::Seal { c: 0, pt: b(rng.bytes(l)), aad: b(rng.var_bytes(40)), inplace: rng.chance(1, 2) });
        let api = if rng.chance(1, 2) { OpenApi::Alloc } else { OpenApi::InPlace };
        ev.push(Ev::TamperSweep { r: 0, from: 0, rec: nrec, api, max_bits: 1500, only: None });
    }
    // soak: more than 2^16 rejected deliveries on one receiver, then the sweep of one more record
    if rng.chance(1, 12) {
        ev.push(Ev::RejectBurst { r: 0, from: 0, n: 66_000 });
        let (pt, aad) = msg(rng, false);
        ev.push(Ev::Seal { c: 0, pt, aad, inplace: false });
        ev.push(Ev::TamperSweep { r: 0, from: 0, rec: nrec, api: OpenApi::Alloc, max_bits: 256, only: None });
    }
    if rng.chance(1, 3) {
        // a genuine open, then forgeries built from what that open just returned (its plaintext as the
        // next body, under its tag or the next record's), then the genuine next message
        setup_pair(&mut ev, rng, 2, &cfg, false, false);
        for _ in 0..3 {
            let l = rng.range(1, 40);
            ev.push(Ev::Seal { c: 2, pt: b(rng.rand_bytes(l)), aad: b(rng.var_bytes(12)), inplace: false });
        }
        for i in 0..2usize {
            let api = open_api(rng);
            ev.push(Ev::Deliver { r: 2, from: 2, rec: RecRef::Next, fault: Fault::None, api });
            for with_tag in [true, false] {
                ev.push(Ev::Deliver { r: 2, from: 2, rec: RecRef::Next, fault: Fault::PlaintextAsBody(i, with_tag), api: open_api(rng) });
            }
            ev.push(Ev::Deliver { r: 2, from: 2, rec: RecRef::Back(1), fault: Fault::None, api: open_api(rng) });
        }
        ev.push(Ev::Deliver { r: 2, from: 2, rec: RecRef::Next, fault: Fault::None, api: open_api(rng) });
    }
    // same position in a restarted session with fresh randomness: its records must not splice in
    if rng.chance(1, 3) {
        setup_pair(&mut ev, rng, 1, &cfg, false, false);
        let (pt, aad) = msg(rng, false);
        ev.push(Ev::Seal { c: 1, pt, aad: aad.clone(), inplace: false });
        ev.push(Ev::Deliver { r: 0, from: 1, rec: RecRef::Index(0), fault: Fault::None, api: OpenApi::Alloc });
    }
    ev
}

// ---------------------------------------------------------------------------------- C07

fn perturb_bytes(rng: &mut Prng, v: &[u8]) -> Vec<u8> {
    let mut o = v.to_vec();
    if !v.is_empty() && rng.chance(1, 12) {
        // the field replaced by its own digest ("long keys are hashed first" confusions)
        return refhpke::hash(*rng.pick(&KDFS), &[v]);
    }
    match rng.below(10) {
        0 if !o.is_empty() => {
            let i = rng.below(o.len() as u64 * 8) as usize;
            o[i / 8] ^= 1 << (i % 8);
        }
        1 if !o.is_empty() => o[0] ^= 0x80,
        2 if !o.is_empty() => {
            let l = o.len() - 1;
            o[l] ^= 1;
        }
        3 => o.push(0),
        4 if !o.is_empty() => {
            o.pop();
        }
        5 => o.insert(0, rng.below(256) as u8),
        6 => {
            if o.is_empty() {
                o = vec![0];
            } else {
                o.clear();
            }
        }
        7 if !o.is_empty() && rng.chance(1, 2) => {
            // the value behind a length header (TLS vector, one-byte length): a different value
            let n = o.len();
            let mut h = if rng.chance(1, 2) { vec![(n >> 8) as u8, n as u8] } else { vec![n as u8] };
            h.extend_from_slice(&o);
            o = h;
        }
        _ => {
            // append or prepend a byte that parsers / normalisers tend to treat specially
            let x = *rng.pick(&[0x00u8, 0x20, 0x0a, 0x0d, 0x09, 0x0c, 0xff, 0x80, b'=', b'/']);
            if rng.chance(1, 2) {
                o.push(x)
            } else {
                o.insert(0, x)
            }
        }
    }
    if o == v {
        o.push(1);
    }
    o
}

pub fn gen_c07(rng: &mut Prng, run: u64, _t: &Tier) -> Vec<Ev> {
    if run == 8 || (_t.thorough && (run == 100_008 || run == 200_008)) {
        // one configuration string longer than 2^32 bytes per batch (thorough: info, psk_id and psk,
        // far apart in the batch so that they do not hold their 4 GiB buffers at the same time)
        let suite = SuiteId { kem: KemId::X25519, kdf: KdfId::S256, aead: AeadId::ChaCha, shim: false };
        let field = if _t.thorough { (run / 100_000) as u8 } else { rng.below(3) as u8 };
        return vec![Ev::HugeFieldProbe { suite, field, pad: (1u64 << 32) + rng.below(9) }];
    }
    let mut ev = vec![];
    let (suite, mode) = suite_mode_biased(run, rng, &SEAL_AEADS, false);
    let mut cfg = gen_cfg(rng, suite, mode, 300);
    if !mode.has_psk() {
        cfg.psk = b(vec![]);
        cfg.psk_id = b(vec![]);
    } else if rng.chance(1, 6) {
        let l = *rng.pick(&[65usize, 100, 129, 200, 1025, 2048, 5000, 8161, 12241, 16321, 20000]);
        cfg.psk = b(rng.rand_bytes(l));
    }
    let long_info = rng.chance(1, 60);
    if long_info {
        // info longer than 65535 bytes; the receiver's differs only in the tail (see below)
        let l = *rng.pick(&[65536usize, 65537, 65600, 70001]);
        cfg.info = b(rng.bytes(l));
    }
    let kem = suite.kem;
    setup_pair(&mut ev, rng, 0, &cfg, false, false);
    ev.push(Ev::Keygen { k: 10, kem, ikm: ikm(rng) }); // another recipient key
    ev.push(Ev::Keygen { k: 11, kem, ikm: ikm(rng) }); // another sender key
    let auth_ks = if mode.has_auth() { Some(1) } else { None };
    // one-component perturbation
    let mut c2 = cfg.clone();
    let mut kr = 0usize;
    let mut ks = auth_ks;
    let mut enc = EncSrc::Of(0);
    let psk_mode = mode.has_psk();
    let mut choice = rng.below(12);
    if !psk_mode && (choice == 1 || choice == 2 || choice == 3) {
        choice = 0;
    }
    // the field wrapped in the protocol's own framing for that field ("HPKE-v1" || suite_id || label ||
    // value): a different value, hence a different context
    let framed = |label: &[u8], v: &[u8], with_suite: bool, with_label: bool| -> Vec<u8> {
        let mut o = b"HPKE-v1".to_vec();
        if with_suite {
            o.extend_from_slice(&refhpke::hpke_suite_id(suite.kem, suite.kdf, suite.aead));
            if with_label {
                o.extend_from_slice(label);
            }
        }
        o.extend_from_slice(v);
        o
    };
    let frame_it = rng.chance(1, 8);
    let (fs, fl) = (rng.chance(3, 4), rng.chance(3, 4));
    if long_info {
        choice = 100;
        let mut v = cfg.info.0.clone();
        match rng.below(3) {
            0 => {
                let l = v.len() - 1;
                v[l] ^= 1;
            }
            1 => v.push(0),
            _ => {
                let i = 65535 + rng.below((v.len() - 65535) as u64) as usize;
                v[i] ^= 0x10;
            }
        }
        c2.info = b(v);
    }
    match choice {
        100 => {}
        0 if frame_it => c2.info = b(framed(b"info_hash", &cfg.info, fs, fl)),
        1 if frame_it => c2.psk = b(framed(b"secret", &cfg.psk, fs, fl)),
        2 if frame_it => c2.psk_id = b(framed(b"psk_id_hash", &cfg.psk_id, fs, fl)),
        0 => c2.info = b(perturb_bytes(rng, &cfg.info)),
        1 => {
            let mut p = perturb_bytes(rng, &cfg.psk);
            if p.is_empty() {
                p = vec![7];
            }
            c2.psk = b(p)
        }
        2 => {
            let mut p = perturb_bytes(rng, &cfg.psk_id);
            if p.is_empty() {
                p = vec![7];
            }
            c2.psk_id = b(p)
        }
        3 => {
            // boundary shift: move k bytes between adjacent fields
            let k = rng.range(1, 3);
            match rng.below(2) {
                0 if cfg.psk_id.len() > k => {
                    // tail of psk_id -> head of info  (key_schedule_context = mode || H(psk_id) || H(info))
                    let mut id = cfg.psk_id.0.clone();
                    let tail = id.split_off(id.len() - k);
                    let mut info = tail;
                    info.extend_from_slice(&cfg.info);
                    c2.psk_id = b(id);
                    c2.info = b(info);
                }
                _ if cfg.psk.len() > k => {
                    let mut psk = cfg.psk.0.clone();
                    let tail = psk.split_off(psk.len() - k);
                    let mut id = tail;
                    id.extend_from_slice(&cfg.psk_id);
                    c2.psk = b(psk);
                    c2.psk_id = b(id);
                }
                _ => c2.info = b(perturb_bytes(rng, &cfg.info)),
            }
        }
        4 => {
            // mode swap keeping the PSK data
            c2.mode = match mode {
                ModeKind::Base => {
                    if rng.chance(1, 2) {
                        ModeKind::Psk // with the (permitted) empty bundle
                    } else {
                        ks = Some(11);
                        ModeKind::Auth
                    }
                }
                ModeKind::Psk => {
                    if rng.chance(1, 2) {
                        ks = Some(11);
                        ModeKind::AuthPsk
                    } else {
                        ModeKind::Base
                    }
                }
                ModeKind::Auth => {
                    if rng.chance(1, 2) {
                        ModeKind::Base
                    } else {
                        ModeKind::AuthPsk
                    }
                }
                ModeKind::AuthPsk => {
                    if rng.chance(1, 2) {
                        ModeKind::Psk
                    } else {
                        ModeKind::Auth
                    }
                }
            };
        }
        5 => {
            c2.suite.kdf = KDFS[(KDFS.iter().position(|k| *k == suite.kdf).unwrap() + rng.range(1, 2)) % 3];
        }
        6 => {
            c2.suite.aead = SEAL_AEADS[(SEAL_AEADS.iter().position(|k| *k == suite.aead).unwrap() + rng.range(1, 2)) % 3];
        }
        7 => kr = 10,
        8 => enc = EncSrc::OfFlip(0, rng.below(1 << 12) as usize),
        9 => {
            // another session's encapsulated key
            ev.push(Ev::SetupS { c: 5, cfg: cfg.clone(), kr: 0, ks: auth_ks, ks_pub: None, rng: rng_script(rng, kem), model_only: false });
            enc = EncSrc::Of(5);
        }
        10 if kem == KemId::X25519 => enc = EncSrc::OfTwin(0),
        10 => c2.info = b(perturb_bytes(rng, &cfg.info)),
        _ => {
            if mode.has_auth() {
                ks = Some(11);
            } else {
                c2.info = b(perturb_bytes(rng, &cfg.info));
            }
        }
    }
    let perturb_sender = rng.chance(1, 3) && matches!(choice, 0..=6);
    if perturb_sender {
        // S' perturbed, R baseline
        ev.push(Ev::SetupS { c: 1, cfg: c2.clone(), kr: 0, ks, ks_pub: None, rng: rng_script(rng, kem), model_only: false });
        ev.push(Ev::SetupR { c: 1, cfg: cfg.clone(), kr: 0, ks: auth_ks, enc: EncSrc::Of(1), model_only: false });
        for _ in 0..rng.range(1, 3) {
            let (pt, aad) = msg(rng, false);
            ev.push(seal_ev(rng, 1, pt, aad));
            ev.push(Ev::Deliver { r: 1, from: 1, rec: RecRef::Index(0), fault: Fault::None, api: open_api(rng) });
        }
        for len in [16usize, 32, cfg.suite.kdf.nh(), 64] {
            ev.push(Ev::ExportCmp { s: 1, r: 1, ctx: b(if rng.chance(1, 2) { vec![] } else { rng.rand_bytes(8) }), len });
        }
    } else {
        ev.push(Ev::SetupR { c: 1, cfg: c2.clone(), kr, ks, enc, model_only: false });
        for i in 0..rng.range(1, 3) {
            let (pt, aad) = msg(rng, false);
            ev.push(seal_ev(rng, 0, pt, aad));
            ev.push(Ev::Deliver { r: 1, from: 0, rec: RecRef::Index(i), fault: Fault::None, api: open_api(rng) });
            // the agreeing receiver still works
            ev.push(Ev::Deliver { r: 0, from: 0, rec: RecRef::Next, fault: Fault::None, api: open_api(rng) });
        }
        ev.push(Ev::Deliver { r: 1, from: 0, rec: RecRef::Index(0), fault: Fault::None, api: OpenApi::SingleShot });
        for len in [16usize, 32, cfg.suite.kdf.nh(), 64] {
            let ctx = b(if rng.chance(1, 2) { vec![] } else { rng.rand_bytes(8) });
            ev.push(Ev::ExportCmp { s: 0, r: 1, ctx: ctx.clone(), len });
            ev.push(Ev::ExportCmp { s: 0, r: 0, ctx, len });
        }
    }
    ev
}

// ---------------------------------------------------------------------------------- C08

pub fn gen_c08(rng: &mut Prng, run: u64, _t: &Tier) -> Vec<Ev> {
    let mut ev = vec![];
    let kem = KEMS[(run % 4) as usize];
    let kem = if run >= 64 && matches!(kem, KemId::P384 | KemId::P521) && !rng.chance(1, 6) { KemId::X25519 } else { kem };
    let kind = (run / 4) % 4; // 0 other identity, 1 public half only, 2 non-auth mode, 3 wrong psk
    let mode = if kind == 3 { if rng.chance(1, 2) { ModeKind::Psk } else { ModeKind::AuthPsk } } else if rng.chance(1, 2) { ModeKind::Auth } else { ModeKind::AuthPsk };
    // export-only suites 1 run in 8: authentication then shows only in the exported secrets
    let aead = if rng.chance(1, 8) { AeadId::Export } else { *rng.pick(&SEAL_AEADS) };
    let suite = SuiteId { kem, kdf: *rng.pick(&KDFS), aead, shim: false };
    let mut cfg = gen_cfg(rng, suite, mode, 60);
    if mode.has_psk() && rng.chance(1, 5) {
        // PSKs longer than one hash block (64 / 128 bytes)
        let l = *rng.pick(&[65usize, 100, 129, 200, 300, 1025, 2048, 5000, 8161, 12241, 16321, 20000]);
        cfg.psk = b(rng.rand_bytes(l));
        if cfg.psk_id.is_empty() {
            cfg.psk_id = b(rng.rand_bytes(7));
        }
    }
    ev.push(Ev::Keygen { k: 0, kem, ikm: ikm(rng) }); // recipient
    ev.push(Ev::Keygen { k: 1, kem, ikm: ikm(rng) }); // legitimate sender
    ev.push(Ev::Keygen { k: 2, kem, ikm: ikm(rng) }); // impostor
    let ks = if mode.has_auth() { Some(1) } else { None };
    // legitimate session: shows the receiver works at all
    ev.push(Ev::SetupS { c: 0, cfg: cfg.clone(), kr: 0, ks, ks_pub: None, rng: rng_script(rng, kem), model_only: false });
    ev.push(Ev::SetupR { c: 0, cfg: cfg.clone(), kr: 0, ks, enc: EncSrc::Of(0), model_only: false });
    if aead.seals() {
        let (pt, aad) = msg(rng, false);
        ev.push(Ev::Seal { c: 0, pt, aad, inplace: false });
        ev.push(Ev::Deliver { r: 0, from: 0, rec: RecRef::Next, fault: Fault::None, api: open_api(rng) });
    }
    ev.push(Ev::ExportCmp { s: 0, r: 0, ctx: b(vec![]), len: 32 });
    // impostor sender
    let mut icfg = cfg.clone();
    let (iks, iks_pub) = match kind {
        0 => (Some(2), None),
        1 => (Some(2), Some(1)),
        2 => {
            icfg.mode = if mode == ModeKind::Auth { ModeKind::Base } else { ModeKind::Psk };
            (None, None)
        }
        _ => {
            let mut p = perturb_bytes(rng, &cfg.psk);
            if p.is_empty() {
                p = vec![0x20];
            }
            icfg.psk = b(p);
            (ks, None)
        }
    };
    ev.push(Ev::SetupS { c: 1, cfg: icfg, kr: 0, ks: iks, ks_pub: iks_pub, rng: rng_script(rng, kem), model_only: false });
    // the receiver, expecting the legitimate sender, processes the impostor's encapsulated key
    ev.push(Ev::SetupR { c: 1, cfg: cfg.clone(), kr: 0, ks, enc: EncSrc::Of(1), model_only: false });
    if aead.seals() {
        for i in 0..rng.range(1, 3) {
            let (pt, aad) = msg(rng, false);
            ev.push(seal_ev(rng, 1, pt, aad));
            ev.push(Ev::Deliver { r: 1, from: 1, rec: RecRef::Index(i), fault: Fault::None, api: open_api(rng) });
        }
        ev.push(Ev::Deliver { r: 1, from: 1, rec: RecRef::Index(0), fault: Fault::None, api: OpenApi::SingleShot });
    }
    // the impostor's exports against those of the legitimate sender's receiver as well
    ev.push(Ev::ExportCmp { s: 1, r: 0, ctx: b(vec![]), len: 32 });
    for len in [16usize, 32, 64] {
        ev.push(Ev::ExportCmp { s: 1, r: 1, ctx: b(if rng.chance(1, 2) { vec![] } else { rng.rand_bytes(5) }), len });
    }
    ev
}

// ---------------------------------------------------------------------------------- C09

fn nist_suite(kem: KemId) -> SuiteId {
    SuiteId { kem, kdf: kem.kem_kdf(), aead: AeadId::ChaCha, shim: false }
}

pub fn gen_c09(rng: &mut Prng, run: u64, t: &Tier) -> Vec<Ev> {
    let mut ev = vec![];
    let kem = [KemId::P256, KemId::P384, KemId::P521][(run % 3) as usize];
    let suite = nist_suite(kem);
    let cv = math::curve(kem);
    let fl = cv.flen;
    let (_, npk, nsk) = kem.rfc_sizes();
    let (sk, pk, _) = refhpke::derive_keypair(kem, &rng.rand_bytes(32));
    let x = math::U::from_be(&pk[1..1 + fl]);
    let y = math::U::from_be(&pk[1 + fl..]);
    let kinds = [Kind::Pk, Kind::Enc];
    let kind = kinds[(run / 3 % 2) as usize];
    let mut push = |bytes: Vec<u8>, k: Kind| ev.push(Ev::DecodeProbe { suite, kind: k, bytes: b(bytes) });
    let section = (run / 6) % 6;
    {
        // in every run: the distinguished valid points (G, -G, 2G, the keys of scalars n-1, n-2), the
        // encoding with its tag byte removed, and coordinates exactly equal to the field prime
        let one = math::U::from_u64(1);
        for sc in [one, math::U::from_u64(2), cv.n.sub(&one).0, cv.n.sub(&math::U::from_u64(2)).0] {
            if let Some(p) = refhpke::pk_of(kem, &sc.to_be(nsk)) {
                push(p, kind);
            }
        }
        push(pk[1..].to_vec(), kind);
        // valid points whose x-coordinate lies just below the field prime, or is tiny (range checks
        // against a mistyped prime go wrong only there)
        for near_p in [true, true, false] {
            for _ in 0..6 {
                let r = math::U::from_u64(rng.below(1 << 20));
                let xs = if near_p { cv.p.sub(&math::U::from_u64(1)).0.sub(&r).0 } else { r };
                if let Some(ys) = cv.sqrt(&cv.rhs(&xs)) {
                    if cv.on_curve(&xs, &ys) {
                        push(cv.encode(&xs, &ys), kind);
                        break;
                    }
                }
            }
        }
        for (off, bit) in [(1usize, 0x80u8), (1, 0x02), (1 + fl, 0x80), (1 + fl, 0x04)] {
            // a valid key with a bit set in the leading byte of a coordinate (for P-521 these bits are
            // outside the field: the value is >= p and must be rejected, never masked away)
            let mut v = pk.clone();
            if v[off] & bit == 0 {
                v[off] |= bit;
                push(v, kind);
            }
        }
        let pb = cv.p.to_be(fl);
        let mut v = vec![4u8];
        v.extend_from_slice(&pb);
        v.extend_from_slice(&pk[1 + fl..]);
        push(v, kind); // x = p
        let mut v = vec![4u8];
        v.extend_from_slice(&pk[1..1 + fl]);
        v.extend_from_slice(&pb);
        push(v, kind); // y = p
        let mut v = vec![4u8];
        v.extend_from_slice(&pb);
        v.extend_from_slice(&pb);
        push(v, kind); // both
    }
    match section {
        0 => {
            // all 256 leading tag bytes at full length; compressed / compact at natural length
            for tag in 0..=255u8 {
                let mut v = pk.clone();
                v[0] = tag;
                push(v, kind);
            }
            for tag in [2u8, 3, 5] {
                let mut v = vec![tag];
                v.extend_from_slice(&pk[1..1 + fl]);
                push(v, kind);
            }
            push(vec![0], kind);
            push(vec![0u8; npk], kind);
            let mut z = vec![0u8; npk];
            z[0] = 4;
            push(z, kind);
        }
        1 => {
            // y +- 1, y bit flips (all positions), x bit flips (sampled), negation (valid)
            let one = math::U::from_u64(1);
            push(cv.encode(&x, &math::add_mod(&y, &one, &cv.p)), kind);
            push(cv.encode(&x, &math::sub_mod(&y, &one, &cv.p)), kind);
            push(cv.encode(&x, &math::sub_mod(&math::U::ZERO, &y, &cv.p)), kind);
            for bit in 0..8 * fl {
                let mut v = pk.clone();
                v[1 + fl + bit / 8] ^= 1 << (bit % 8);
                push(v, kind);
            }
            for _ in 0..64 {
                let bit = rng.below(8 * fl as u64) as usize;
                let mut v = pk.clone();
                v[1 + bit / 8] ^= 1 << (bit % 8);
                push(v, kind);
            }
        }
        2 => {
            // every length 0..=2*Npk+2 (prefixes / extensions of a valid key, and random)
            for l in 0..=2 * npk + 2 {
                let mut v = pk.clone();
                v.resize(l, 0);
                if l > npk && rng.chance(1, 2) {
                    for i in npk..l {
                        v[i] = pk[(i - npk) % npk];
                    }
                }
                push(v, kind);
            }
            for l in [0usize, 1, npk - 1, npk, npk + 1] {
                push(rng.rand_bytes(l), kind);
            }
            // lengths congruent to Npk modulo 2^8 / 2^16 with a valid key as prefix (length
            // arithmetic in a narrower integer type)
            for extra in [256usize, 512, 768, 65536, 65536 + 256] {
                let mut v = pk.clone();
                v.resize(npk + extra, if rng.chance(1, 2) { 0 } else { 0x04 });
                push(v, kind);
            }
        }
        3 => {
            // twist points, same-field curves with another b, non-canonical coordinates
            let n = if t.thorough { 6 } else { 3 };
            for _ in 0..n {
                // random x: on the curve (with the right y) or on the twist
                let xr = math::U::from_be(&{
                    let mut v = rng.rand_bytes(fl);
                    if kem == KemId::P521 {
                        v[0] &= 1;
                    }
                    v
                });
                if !xr.lt(&cv.p) {
                    continue;
                }
                let rhs = cv.rhs(&xr);
                match cv.sqrt(&rhs) {
                    Some(yr) => {
                        push(cv.encode(&xr, &yr), kind); // valid
                        // non-canonical y + p if it fits the field width
                        let (yp, _) = yr.add(&cv.p);
                        if yp.bits() <= 8 * fl {
                            push(cv.encode(&xr, &yp), kind);
                        }
                    }
                    None => {
                        // x is on the twist: any y fails; use y = sqrt of the negated rhs
                        let yr = math::U::from_be(&rng.rand_bytes(fl.min(20)));
                        push(cv.encode(&xr, &yr), kind);
                    }
                }
                // arbitrary (x, y): a point of the curve y^2 = x^3 - 3x + b' for another b'
                let yr = math::U::from_be(&{
                    let mut v = rng.rand_bytes(fl);
                    v[0] = 0;
                    v
                });
                push(cv.encode(&xr, &yr), kind);
            }
            // small x so that x + p fits (P-256/P-384: needs x < 2^(8*flen) - p)
            for xs in 0..24u64 {
                let xr = math::U::from_u64(xs);
                if let Some(yr) = cv.sqrt(&cv.rhs(&xr)) {
                    push(cv.encode(&xr, &yr), kind); // valid small-x point
                    let (xp, _) = xr.add(&cv.p);
                    if xp.bits() <= 8 * fl {
                        push(cv.encode(&xp, &yr), kind); // x + p: non-canonical
                    }
                    let (yp, _) = yr.add(&cv.p);
                    if yp.bits() <= 8 * fl {
                        push(cv.encode(&xr, &yp), kind);
                    }
                    if !t.thorough && xs > 8 {
                        break;
                    }
                }
            }
            // coordinates equal to p, p+1 ... (all-ones fields)
            push(cv.encode(&cv.p, &y), kind);
            push(cv.encode(&x, &cv.p), kind);
            let mut ff = vec![0xFFu8; npk];
            ff[0] = 4;
            push(ff, kind);
        }
        4 => {
            // private keys
            let n = cv.n;
            let one = math::U::from_u64(1);
            let mut cands: Vec<Vec<u8>> = vec![
                vec![0u8; nsk],
                one.to_be(nsk),
                math::U::from_u64(2).to_be(nsk),
                n.sub(&math::U::from_u64(2)).0.to_be(nsk),
                n.sub(&one).0.to_be(nsk),
                n.to_be(nsk),
                n.add(&one).0.to_be(nsk),
                vec![0xFFu8; nsk],
                sk.clone(),
            ];
            if kem == KemId::P521 {
                for bit in 1..8 {
                    let mut v = sk.clone();
                    v[0] |= 1 << bit;
                    cands.push(v);
                }
                let mut v = vec![0u8; nsk];
                v[0] = 2;
                cands.push(v.clone()); // 2^521
                v[nsk - 1] = 1;
                cands.push(v); // 2^521 + 1
            }
            for _ in 0..32 {
                let mut v = rng.rand_bytes(nsk);
                if rng.chance(1, 2) {
                    // near n: shares a long prefix with the order
                    let nb = n.to_be(nsk);
                    let keep = rng.range(1, nsk - 1);
                    v[..keep].copy_from_slice(&nb[..keep]);
                }
                cands.push(v);
            }
            // sparse scalars: one set bit at every position, and a few non-zero bytes at one end only
            // (all below n, all valid): word-wise or partial zero tests misjudge them
            for k in 0..n.bits() {
                let mut v = vec![0u8; nsk];
                v[nsk - 1 - k / 8] = 1 << (k % 8);
                cands.push(v);
            }
            for _ in 0..6 {
                let mut v = vec![0u8; nsk];
                let m = rng.range(1, 3);
                for i in 0..m {
                    let x = rng.range(1, 255) as u8;
                    if rng.chance(1, 2) {
                        v[i] = if kem == KemId::P521 && i == 0 { 1 } else { x };
                    } else {
                        v[nsk - 1 - i] = x;
                    }
                }
                cands.push(v);
            }
            // short inputs that a lenient parser would left-pad (valid small scalars once padded)
            for l in [nsk - 1, nsk - 2, nsk - 8, 24, 16] {
                if l < nsk {
                    let mut v = rng.rand_bytes(l);
                    if !v.is_empty() {
                        v[0] &= 0x7f;
                    }
                    cands.push(v);
                }
            }
            for l in 0..=2 * nsk + 2 {
                let mut v = sk.clone();
                v.resize(l, 0x11);
                cands.push(v);
            }
            for extra in [256usize, 512, 65536] {
                let mut v = sk.clone();
                v.resize(nsk + extra, 0);
                cands.push(v);
            }
            for c in cands {
                push(c, Kind::Sk);
            }
        }
        _ => {
            // uniformly random strings of the right length, and bit-flipped wire records
            for _ in 0..48 {
                let mut v = rng.rand_bytes(npk);
                if rng.chance(3, 4) {
                    v[0] = 4;
                }
                if kem == KemId::P521 && rng.chance(1, 2) {
                    v[1] &= 1;
                    v[1 + fl] &= 1;
                }
                push(v, kind);
            }
            for _ in 0..48 {
                let mut v = pk.clone();
                let bit = rng.below(8 * npk as u64) as usize;
                v[bit / 8] ^= 1 << (bit % 8);
                push(v, kind);
            }
        }
    }
    // hostile encodings arrive where they would in life: as ENC at the receiver / pkR at the sender
    if section == 3 || section == 5 {
        let cfg = gen_cfg(rng, nist_suite(kem), ModeKind::Base, 10);
        ev.push(Ev::Keygen { k: 0, kem, ikm: ikm(rng) });
        let mut bad = pk.clone();
        let bit = rng.below(8 * fl as u64) as usize;
        bad[1 + fl + bit / 8] ^= 1 << (bit % 8);
        ev.push(Ev::SetupR { c: 0, cfg: cfg.clone(), kr: 0, ks: None, enc: EncSrc::Raw(b(bad.clone())), model_only: false });
        ev.push(Ev::KeyRaw { k: 1, kem, sk: b(sk.clone()), pk: b(bad) });
        ev.push(Ev::SetupS { c: 0, cfg, kr: 1, ks: None, ks_pub: None, rng: rng_script(rng, kem), model_only: false });
    }
    ev
}

// ---------------------------------------------------------------------------------- C10

pub fn gen_c10(rng: &mut Prng, run: u64, _t: &Tier) -> Vec<Ev> {
    let mut ev = vec![];
    let kem = KemId::X25519;
    let small = math::x25519_small_order();
    let enc_i = (run % 14) as usize;
    let role = (run / 14) % 4; // 0 pkR at sender, 1 ENC at receiver, 2 pkS at receiver, 3 negatives
    let mode = MODES[(run / 56 % 4) as usize];
    let kdf = KDFS[(run / 224 % 3) as usize];
    let suite = SuiteId { kem, kdf, aead: *rng.pick(&ALL_AEADS), shim: false };
    let mut cfg = gen_cfg(rng, suite, mode, 30);
    ev.push(Ev::Keygen { k: 0, kem, ikm: ikm(rng) }); // recipient
    ev.push(Ev::Keygen { k: 1, kem, ikm: ikm(rng) }); // sender identity
    let hostile = small[enc_i].clone();
    let ks = if mode.has_auth() { Some(1) } else { None };
    match role {
        0 => {
            ev.push(Ev::KeyRaw { k: 2, kem, sk: b(rng.rand_bytes(32)), pk: b(hostile) });
            ev.push(Ev::SetupS { c: 0, cfg: cfg.clone(), kr: 2, ks, ks_pub: None, rng: rng_script(rng, kem), model_only: false });
            let again = rng_script(rng, kem);
            ev.push(Ev::SetupS { c: 5, cfg: cfg.clone(), kr: 2, ks, ks_pub: None, rng: again.clone(), model_only: false });
            ev.push(Ev::SetupS { c: 6, cfg: cfg.clone(), kr: 2, ks, ks_pub: None, rng: again, model_only: false });
            ev.push(Ev::KemProbe { kem, kr: 2, ks: None, rng: rng_script(rng, kem) });
            ev.push(Ev::KemProbe { kem, kr: 2, ks: Some(1), rng: rng_script(rng, kem) });
            let (pt, aad) = msg(rng, false);
            ev.push(Ev::SingleShotSeal { c: 1, cfg: cfg.clone(), kr: 2, ks, ks_pub: None, rng: rng_script(rng, kem), pt, aad, inplace: rng.chance(1, 2) });
        }
        1 => {
            ev.push(Ev::SetupR { c: 0, cfg: cfg.clone(), kr: 0, ks, enc: EncSrc::Raw(b(hostile.clone())), model_only: false });
            // the same attempt again with the same key objects: refused every time, not only the first
            for _ in 0..rng.range(1, 2) {
                ev.push(Ev::SetupR { c: 5, cfg: cfg.clone(), kr: 0, ks, enc: EncSrc::Raw(b(hostile.clone())), model_only: false });
            }
            for tag in [None, Some(b(rng.bytes(16)))] {
                ev.push(Ev::SingleShotOpenRaw { cfg: cfg.clone(), kr: 0, ks, enc: EncSrc::Raw(b(hostile.clone())), ct: b(rng.bytes(40)), aad: b(vec![]), tag });
            }
            ev.push(Ev::KeyRaw { k: 4, kem, sk: b(rng.rand_bytes(32)), pk: b(hostile.clone()) });
            // single-shot open on the same parameters: a context must not come into being either
            ev.push(Ev::SetupS { c: 3, cfg: cfg.clone(), kr: 0, ks, ks_pub: None, rng: rng_script(rng, kem), model_only: false });
            let (pt, aad) = msg(rng, false);
            ev.push(Ev::Seal { c: 3, pt, aad, inplace: false });
        }
        2 => {
            // honest ENC, only the *second* DH (with the sender identity key) is zero
            if !mode.has_auth() {
                cfg.mode = if rng.chance(1, 2) { ModeKind::Auth } else { ModeKind::AuthPsk };
                if cfg.mode.has_psk() && cfg.psk.is_empty() {
                    cfg.psk = b(rng.rand_bytes(16));
                    cfg.psk_id = b(rng.rand_bytes(4));
                }
            }
            ev.push(Ev::KeyRaw { k: 2, kem, sk: b(rng.rand_bytes(32)), pk: b(hostile) });
            // an honest sender context (identity key 1) provides an honest ENC
            ev.push(Ev::SetupS { c: 0, cfg: cfg.clone(), kr: 0, ks: Some(1), ks_pub: None, rng: rng_script(rng, kem), model_only: false });
            ev.push(Ev::SetupR { c: 0, cfg: cfg.clone(), kr: 0, ks: Some(2), enc: EncSrc::Of(0), model_only: false });
            ev.push(Ev::SetupR { c: 5, cfg: cfg.clone(), kr: 0, ks: Some(2), enc: EncSrc::Of(0), model_only: false });
            for tag in [None, Some(b(rng.bytes(16)))] {
                ev.push(Ev::SingleShotOpenRaw { cfg: cfg.clone(), kr: 0, ks: Some(2), enc: EncSrc::Of(0), ct: b(rng.bytes(33)), aad: b(vec![1]), tag });
            }
            // both DH results zero at once: small-order enc *and* small-order identity key
            let other = small[rng.below(14) as usize].clone();
            ev.push(Ev::SetupR { c: 2, cfg: cfg.clone(), kr: 0, ks: Some(2), enc: EncSrc::Raw(b(other.clone())), model_only: false });
            ev.push(Ev::SingleShotOpenRaw { cfg: cfg.clone(), kr: 0, ks: Some(2), enc: EncSrc::Raw(b(other)), ct: b(rng.bytes(20)), aad: b(vec![]), tag: None });
            // and a sender that *claims* a small-order public identity key (only kem_context sees it)
            ev.push(Ev::SetupS { c: 1, cfg: cfg.clone(), kr: 0, ks: Some(1), ks_pub: Some(2), rng: rng_script(rng, kem), model_only: false });
        }
        _ => {
            // negatives: random strings and bit-flipped honest keys are never rejected
            let mut pkx = if rng.chance(1, 2) { rng.rand_bytes(32) } else { let mut v = small[enc_i].clone(); let bit = rng.range(8, 250); v[bit / 8] ^= 1 << (bit % 8); v };
            if rng.chance(1, 3) {
                // a near miss of a small-order value: two adjacent bytes transposed, or one byte off by
                // one (what a mistyped table entry in a reject list would match)
                let mut v = small[enc_i].clone();
                let i = rng.below(31) as usize;
                if rng.chance(2, 3) {
                    v.swap(i, i + 1);
                } else {
                    v[i] = v[i].wrapping_add(if rng.chance(1, 2) { 1 } else { 0xff });
                }
                if !small.contains(&v) && !small.contains(&math::x25519_canon(&v)) {
                    pkx = v;
                }
            }
            if rng.chance(1, 4) {
                // a small-order value read in the wrong byte order (u = 2^248 for "1", ...)
                let mut v = small[enc_i].clone();
                v.reverse();
                if !small.contains(&v) && !small.contains(&math::x25519_canon(&v)) {
                    pkx = v;
                }
            }
            if rng.chance(1, 3) {
                // "reject list" entries written without masking bit 255: most are ordinary points
                let al = math::x25519_unmasked_aliases();
                pkx = rng.pick(&al).clone();
            }
            if rng.chance(1, 3) {
                // tiny u-coordinates (half of them on the twist): ordinary keys for X25519
                pkx = vec![0u8; 32];
                pkx[0] = rng.range(2, 40) as u8;
            }
            if rng.chance(1, 3) {
                // a valid key crafted so that the recipient's DH result is *almost* zero (all but a few
                // bytes zero): not small order, must be accepted
                let ikm_r = rng.rand_bytes(32);
                let (sk_r, _, _) = refhpke::derive_keypair(kem, &ikm_r);
                if let Some(pk) = dh_partner(rng, kem, &sk_r) {
                    ev[0] = Ev::Keygen { k: 0, kem, ikm: b(ikm_r) };
                    pkx = pk;
                }
            }
            if rng.chance(1, 3) {
                // a special-but-legal private key on the local side (recipient, and sender identity):
                // honest peers must be served
                let sk = x25519_special_sk(rng);
                let pk = refhpke::pk_of(kem, &sk).unwrap();
                ev.push(Ev::KeyRaw { k: 7, kem, sk: b(sk), pk: b(pk) });
                let m2 = if rng.chance(1, 2) { ModeKind::Auth } else { ModeKind::Base };
                let mut c2 = cfg.clone();
                c2.mode = m2;
                ev.push(Ev::SetupS { c: 7, cfg: c2.clone(), kr: 7, ks: if m2.has_auth() { Some(1) } else { None }, ks_pub: None, rng: rng_script(rng, kem), model_only: false });
                ev.push(Ev::SetupR { c: 7, cfg: c2.clone(), kr: 7, ks: if m2.has_auth() { Some(1) } else { None }, enc: EncSrc::Of(7), model_only: false });
                ev.push(Ev::ExportCmp { s: 7, r: 7, ctx: b(vec![]), len: 32 });
                c2.mode = ModeKind::Auth;
                ev.push(Ev::SetupS { c: 8, cfg: c2.clone(), kr: 0, ks: Some(7), ks_pub: None, rng: rng_script(rng, kem), model_only: false });
                ev.push(Ev::SetupR { c: 8, cfg: c2, kr: 0, ks: Some(7), enc: EncSrc::Of(8), model_only: false });
                ev.push(Ev::ExportCmp { s: 8, r: 8, ctx: b(vec![]), len: 32 });
            }
            if rng.chance(1, 4) {
                // the same for the sender: recipient key crafted against the ephemeral key of the RNG script
                let script = rng.rand_bytes(32);
                let (sk_e, _, _) = refhpke::derive_keypair(kem, &script);
                if let Some(pk) = dh_partner(rng, kem, &sk_e) {
                    ev.push(Ev::KeyRaw { k: 5, kem, sk: b(vec![]), pk: b(pk) });
                    ev.push(Ev::SetupS { c: 4, cfg: cfg.clone(), kr: 5, ks, ks_pub: None, rng: b(script), model_only: false });
                }
            }
            ev.push(Ev::KeyRaw { k: 2, kem, sk: b(rng.rand_bytes(32)), pk: b(pkx.clone()) });
            ev.push(Ev::SetupS { c: 0, cfg: cfg.clone(), kr: 2, ks, ks_pub: None, rng: rng_script(rng, kem), model_only: false });
            ev.push(Ev::SetupR { c: 0, cfg: cfg.clone(), kr: 0, ks, enc: EncSrc::Raw(b(pkx.clone())), model_only: false });
            ev.push(Ev::SingleShotOpenRaw { cfg: cfg.clone(), kr: 0, ks, enc: EncSrc::Raw(b(pkx)), ct: b(rng.bytes(20)), aad: b(vec![]), tag: None });
            ev.push(Ev::KemProbe { kem, kr: 2, ks: None, rng: rng_script(rng, kem) });
        }
    }
    ev
}

// ---------------------------------------------------------------------------------- C11

pub fn export_boundary_lens() -> Vec<usize> {
    let mut v = vec![0usize, 1, 31, 32, 33, 47, 48, 49, 63, 64, 65, 96, 128, 1 << 20];
    for nh in [32usize, 48, 64] {
        for d in 0..=6 {
            v.push(255 * nh - 3 + d);
        }
    }
    for l in 65533..=65540 {
        v.push(l);
    }
    v
}

pub fn gen_c11(rng: &mut Prng, run: u64, _t: &Tier) -> Vec<Ev> {
    let o = HistOpts {
        sessions: rng.range(1, 2),
        steps: rng.range(6, 50),
        jumps: rng.chance(1, 3),
        exports: true,
        teardown: false,
        restart: rng.chance(1, 3),
        single_shot: false,
        shim_ok: true,
        aeads: &ALL_AEADS,
        export_lens: export_boundary_lens(),
        fault_rate: *rng.pick(&[0u64, 4, 8]),
    };
    let mut ev = gen_history(rng, run, &o);
    // explicit exports on both roles at the end (after the whole history), incl. exact boundaries
    for c in 0..o.sessions {
        for _ in 0..3 {
            let len = *rng.pick(&o.export_lens);
            let ctx = b(rng.var_bytes(64));
            ev.push(Ev::Export { c, role: Role::S, ctx: ctx.clone(), len });
            ev.push(Ev::Export { c, role: Role::R, ctx, len });
        }
    }
    if rng.chance(1, 40) {
        ev.push(Ev::ExportBurst { c: 0, role: if rng.chance(1, 2) { Role::S } else { Role::R }, n: 66_000, len: *rng.pick(&[1usize, 16, 32]) });
        ev.push(Ev::Export { c: 0, role: Role::S, ctx: b(vec![1]), len: 32 });
        ev.push(Ev::Export { c: 0, role: Role::R, ctx: b(vec![1]), len: 32 });
    }
    // drive a sealing session into exhaustion and export again
    if rng.chance(1, 4) {
        ev.push(Ev::Jump { c: 0, role: Role::S, to: u64::MAX });
        ev.push(Ev::Jump { c: 0, role: Role::R, to: u64::MAX });
        let (pt, aad) = msg(rng, false);
        ev.push(Ev::Seal { c: 0, pt, aad, inplace: false });
        ev.push(Ev::Deliver { r: 0, from: 0, rec: RecRef::Next, fault: Fault::None, api: OpenApi::Alloc });
        ev.push(Ev::Seal { c: 0, pt: b(vec![1]), aad: b(vec![]), inplace: true });
        ev.push(Ev::Export { c: 0, role: Role::S, ctx: b(vec![]), len: 32 });
        ev.push(Ev::Export { c: 0, role: Role::R, ctx: b(vec![]), len: 32 });
    }
    ev
}

// ---------------------------------------------------------------------------------- C12

/// A valid encoding wrapped the way other formats carry the same value (ASN.1 OCTET STRING / INTEGER /
/// BIT STRING headers, a sign octet, a SEC1 tag, a length prefix, hex text): none of these is the RFC
/// 9180 encoding, so each is a wrong-length input (or, at the right length, a different value)
pub fn framed_variants(val: &[u8]) -> Vec<Vec<u8>> {
    let n = val.len();
    let mut out: Vec<Vec<u8>> = vec![];
    let pre = |p: &[u8]| -> Vec<u8> { let mut v = p.to_vec(); v.extend_from_slice(val); v };
    out.push(pre(&[0x00]));
    out.push(pre(&[0x04]));
    out.push(pre(&[0x04, n as u8]));
    out.push(pre(&[0x02, n as u8]));
    out.push(pre(&[0x02, (n + 1) as u8, 0x00]));
    out.push(pre(&[0x03, (n + 1) as u8, 0x00]));
    out.push(pre(&[0x30, n as u8]));
    out.push(pre(&[0x04, 0x81, n as u8]));
    out.push(pre(&[(n >> 8) as u8, n as u8]));
    out.push(pre(&[n as u8]));
    out.push(pre(&[0, 0, (n >> 8) as u8, n as u8]));
    // the encoding with its own first byte(s) removed (a SEC1 point without its 0x04, ...)
    if n > 2 {
        out.push(val[1..].to_vec());
        out.push(val[2..].to_vec());
    }
    // suffixes
    for suf in [&[0x00u8][..], &[0x0a], &[0x0d, 0x0a], &[0x00, 0x00]] {
        let mut v = val.to_vec();
        v.extend_from_slice(suf);
        out.push(v);
    }
    // text forms
    out.push(val.iter().flat_map(|b| format!("{:02x}", b).into_bytes()).collect());
    out.push(val.iter().flat_map(|b| format!("{:02X}", b).into_bytes()).collect());
    // leading zeros stripped / reversed byte order (same length: a different value or invalid)
    let stripped: Vec<u8> = val.iter().copied().skip_while(|b| *b == 0).collect();
    if stripped.len() != n {
        out.push(stripped);
    }
    out
}

pub fn gen_c12(rng: &mut Prng, run: u64, _t: &Tier) -> Vec<Ev> {
    let mut ev = vec![];
    let kem = KEMS[(run % 4) as usize];
    let aead = ALL_AEADS[(run / 4 % 4) as usize];
    let suite = SuiteId { kem, kdf: kem.kem_kdf(), aead, shim: false };
    let (_, npk, nsk) = kem.rfc_sizes();
    let nt = aead.rfc_sizes().2;
    let (sk, pk, _) = refhpke::derive_keypair(kem, &{ let l = rng.range(0, 64); rng.rand_bytes(l) });
    let which = (run / 16) % 4;
    let (kind, val, size) = match which {
        0 => (Kind::Pk, if kem == KemId::X25519 && rng.chance(1, 2) { rng.bytes(32) } else { pk.clone() }, npk),
        1 => (Kind::Sk, if kem == KemId::X25519 && rng.chance(1, 2) { rng.bytes(32) } else { sk.clone() }, nsk),
        2 => (Kind::Enc, if kem == KemId::X25519 && rng.chance(1, 2) { rng.bytes(32) } else { pk.clone() }, npk),
        _ => (Kind::Tag, rng.bytes(nt), nt),
    };
    // exact value
    ev.push(Ev::DecodeProbe { suite, kind, bytes: b(val.clone()) });
    // all lengths 0..=2*size+2
    for l in 0..=2 * size + 2 {
        let mut v = val.clone();
        v.resize(l, 0);
        if l > 0 && l != size && rng.chance(1, 2) {
            // wrong-length inputs with every kind of leading byte (SEC1 tags, 0x00, 0xff, random)
            v[0] = *rng.pick(&[0x02u8, 0x03, 0x04, 0x05, 0x06, 0x07, 0x00, 0xff, 0x80, 0x01]);
        }
        ev.push(Ev::DecodeProbe { suite, kind, bytes: b(v) });
        ev.push(Ev::WriteExactProbe { suite, kind, bytes: b(val.clone()), buflen: l });
    }
    for extra in [256usize, 512, 65536] {
        let mut v = val.clone();
        v.resize(size + extra, 0);
        ev.push(Ev::DecodeProbe { suite, kind, bytes: b(v) });
    }
    for v in framed_variants(&val) {
        ev.push(Ev::DecodeProbe { suite, kind, bytes: b(v) });
    }
    if kem.is_nist() && matches!(kind, Kind::Pk | Kind::Enc) {
        // right length, valid coordinates, every interesting leading byte: either rejected or, if
        // accepted, re-serialised identically
        for tagb in [0x00u8, 0x01, 0x02, 0x03, 0x05, 0x06, 0x07, 0x08, 0x44, 0x84, 0xff] {
            let mut v = pk.clone();
            v[0] = tagb;
            ev.push(Ev::DecodeProbe { suite, kind, bytes: b(v) });
        }
        // a bit set in the leading byte of a coordinate: a different point, an invalid one, or (P-521)
        // a value outside the field - never the same key again
        let fl = (npk - 1) / 2;
        for (off, bit) in [(1usize, 0x80u8), (1, 0x02), (1 + fl, 0x80), (1 + fl, 0x04)] {
            let mut v = pk.clone();
            v[off] ^= bit;
            ev.push(Ev::DecodeProbe { suite, kind, bytes: b(v) });
        }
    }
    if kem.is_nist() && kind == Kind::Sk {
        // right-length scalars at and beyond the group order: rejected, never reduced
        let cv = math::curve(kem);
        let one = math::U::from_u64(1);
        for v in [cv.n.to_be(nsk), cv.n.add(&one).0.to_be(nsk), cv.n.sub(&one).0.to_be(nsk), vec![0xFFu8; nsk], vec![0u8; nsk], one.to_be(nsk)] {
            ev.push(Ev::DecodeProbe { suite, kind, bytes: b(v) });
        }
        // sparse scalars: a single set bit at every position (only the leading bytes non-zero, only
        // the trailing ones, ...): all of them below n are valid keys
        for k in 0..cv.n.bits() {
            let mut v = vec![0u8; nsk];
            v[nsk - 1 - k / 8] = 1 << (k % 8);
            ev.push(Ev::DecodeProbe { suite, kind, bytes: b(v) });
        }
        for _ in 0..8 {
            // a few non-zero bytes at one end only
            let mut v = vec![0u8; nsk];
            let m = rng.range(1, 3);
            if rng.chance(1, 2) {
                for i in 0..m {
                    v[i] = rng.range(1, 255) as u8;
                }
                if kem == KemId::P521 {
                    v[0] &= 1;
                }
            } else {
                for i in 0..m {
                    v[nsk - 1 - i] = rng.range(1, 255) as u8;
                }
            }
            ev.push(Ev::DecodeProbe { suite, kind, bytes: b(v) });
        }
    }
    // X25519: every 32-byte string is an accepted public / encapsulated key and must come back
    // byte-identical, in particular the non-canonical ones (u >= p, bit 255 set, small order)
    if kem == KemId::X25519 && kind != Kind::Tag {
        let mut cat: Vec<Vec<u8>> = math::x25519_small_order();
        for k in 0..19u8 {
            let mut v = vec![0xFFu8; 32];
            v[0] = 0xED + k;
            v[31] = 0x7F;
            cat.push(v.clone()); // p + k
            v[31] = 0xFF;
            cat.push(v); // p + k with bit 255 set
        }
        cat.push(vec![0xFF; 32]);
        cat.push(vec![0x00; 32]);
        for _ in 0..8 {
            let mut v = rng.rand_bytes(32);
            match rng.below(4) {
                0 => v[31] |= 0x80,
                1 => v[0] |= 7,   // low bits that clamping clears (private keys)
                2 => v[31] |= 0xC0,
                _ => {}
            }
            cat.push(v);
        }
        for v in cat {
            ev.push(Ev::DecodeProbe { suite, kind, bytes: b(v.clone()) });
            ev.push(Ev::WriteExactProbe { suite, kind, bytes: b(v), buflen: 32 });
        }
    }
    // values that the worlds produce: keys from gen_keypair / encapsulated keys / tags of real seals
    if which == 2 || which == 3 {
        let cfg = gen_cfg(rng, SuiteId { kem, kdf: KdfId::S256, aead: if aead.seals() { aead } else { AeadId::ChaCha }, shim: false }, ModeKind::Base, 10);
        setup_pair(&mut ev, rng, 0, &cfg, false, false);
        let (pt, aad) = msg(rng, false);
        ev.push(Ev::Seal { c: 0, pt, aad, inplace: true });
        ev.push(Ev::Deliver { r: 0, from: 0, rec: RecRef::Next, fault: Fault::None, api: OpenApi::InPlace });
    }
    ev
}

// ---------------------------------------------------------------------------------- C13

pub fn gen_c13(rng: &mut Prng, run: u64, t: &Tier) -> Vec<Ev> {
    let mut ev = vec![];
    let (suite, mode) = suite_mode_biased(run, rng, &SEAL_AEADS, false);
    let kem = suite.kem;
    let (_, npk, nsk) = kem.rfc_sizes();
    let huge = if t.thorough && rng.chance(1, 20) { 1 << 20 } else { 70001 };
    let mut cfg = gen_cfg(rng, suite, mode, 100);
    // long strings at the setup boundary
    match rng.below(6) {
        0 => cfg.info = b({ let l = *rng.pick(&[65535usize, 65536, 65537, huge]); rng.bytes(l) }),
        1 if mode.has_psk() => cfg.psk = b({ let l = *rng.pick(&[65535usize, 65536, huge]); rng.bytes(l) }),
        2 if mode.has_psk() => cfg.psk_id = b({ let l = *rng.pick(&[65535usize, 65536, huge]); rng.bytes(l) }),
        _ => {}
    }
    setup_pair(&mut ev, rng, 0, &cfg, false, false);
    if mode.has_auth() && rng.chance(1, 3) {
        // an identity pair whose halves do not belong together (the API takes them as two values): the
        // sender can only succeed or fail with EncapError, whatever the build
        ev.push(Ev::Keygen { k: 14, kem, ikm: ikm(rng) });
        ev.push(Ev::SetupS { c: 5, cfg: cfg.clone(), kr: 0, ks: Some(1), ks_pub: Some(14), rng: rng_script(rng, kem), model_only: false });
        let (pt, aad) = msg(rng, false);
        ev.push(Ev::SingleShotSeal { c: 6, cfg: cfg.clone(), kr: 0, ks: Some(1), ks_pub: Some(14), rng: rng_script(rng, kem), pt, aad, inplace: rng.chance(1, 2) });
    }
    // key / enc / tag deserialisation with hostile bytes
    for kind in [Kind::Pk, Kind::Sk, Kind::Enc, Kind::Tag] {
        let size = match kind {
            Kind::Pk | Kind::Enc => npk,
            Kind::Sk => nsk,
            Kind::Tag => 16,
        };
        for _ in 0..3 {
            let l = match rng.below(6) {
                0 => rng.range(0, 2 * size + 2),
                1 => size,
                2 => *rng.pick(&[size - 1, size + 1, 0, 1]),
                3 => 4096,
                4 => huge,
                _ => rng.range(0, 300),
            };
            let mut v = rng.bytes(l);
            if l > 0 && kem.is_nist() && rng.chance(1, 2) {
                v[0] = *rng.pick(&[4u8, 2, 3, 0, 6]);
            }
            ev.push(Ev::DecodeProbe { suite, kind, bytes: b(v) });
        }
    }
    if kem.is_nist() {
        // coordinates exactly equal to the field prime, all-ones coordinates, the tag byte removed
        let cv = math::curve(kem);
        let pb = cv.p.to_be(cv.flen);
        let (_, pkv, _) = refhpke::derive_keypair(kem, &rng.rand_bytes(16));
        for (xs, ys) in [(pb.clone(), pkv[1 + cv.flen..].to_vec()), (pkv[1..1 + cv.flen].to_vec(), pb.clone()), (pb.clone(), pb.clone()), (vec![0xffu8; cv.flen], vec![0xffu8; cv.flen])] {
            let mut v = vec![4u8];
            v.extend_from_slice(&xs);
            v.extend_from_slice(&ys);
            ev.push(Ev::DecodeProbe { suite, kind: if rng.chance(1, 2) { Kind::Pk } else { Kind::Enc }, bytes: b(v) });
        }
        ev.push(Ev::DecodeProbe { suite, kind: Kind::Pk, bytes: b(pkv[1..].to_vec()) });
    }
    // receiver setup on hostile but decodable encapsulated keys
    let enc_src = if kem == KemId::X25519 { EncSrc::Raw(b(rng.bytes(32))) } else { EncSrc::OfFlip(0, rng.below(8) as usize) };
    ev.push(Ev::SetupR { c: 1, cfg: cfg.clone(), kr: 0, ks: if mode.has_auth() { Some(1) } else { None }, enc: enc_src, model_only: false });
    {
        let e2 = if kem == KemId::X25519 { EncSrc::Raw(b(rng.bytes(32))) } else { EncSrc::OfFlip(0, rng.below(2000) as usize) };
        let l = *rng.pick(&[0usize, 1, 15, 16, 17, 64]);
        let tag = if rng.chance(1, 2) { Some(b({ let tl = *rng.pick(&[0usize, 15, 16, 16, 17]); rng.bytes(tl) })) } else { None };
        ev.push(Ev::SingleShotOpenRaw { cfg: cfg.clone(), kr: 0, ks: if mode.has_auth() { Some(1) } else { None }, enc: e2, ct: b(rng.bytes(l)), aad: b(rng.var_bytes(10)), tag });
    }
    // opening: lengths 0, 1, Nt-1, Nt, Nt+1, garbage up to 70 001
    for _ in 0..6 {
        let l = *rng.pick(&[0usize, 1, 2, 14, 15, 16, 17, 18, 31, 32, 33, 64, 255, 4096, 65536, huge]);
        let aad = b(if rng.chance(1, 8) { rng.bytes(huge) } else { rng.var_bytes(64) });
        let tag = if rng.chance(1, 2) { Some(b({ let l = *rng.pick(&[0usize, 1, 15, 16, 16, 16, 17, 32, 4096]); rng.bytes(l) })) } else { None };
        ev.push(Ev::RawOpen { r: if rng.chance(1, 4) { 1 } else { 0 }, ct: b(rng.bytes(l)), aad, tag });
    }
    // hostile but decodable keys in every role (X25519: any 32 bytes decode; the small-order ones
    // make a DH result zero, in the first or only in the second DH)
    if kem == KemId::X25519 && rng.chance(1, 2) {
        let small = math::x25519_small_order();
        let hostile = if rng.chance(3, 4) { rng.pick(&small).clone() } else { rng.bytes(32) };
        ev.push(Ev::KeyRaw { k: 8, kem, sk: b(rng.rand_bytes(32)), pk: b(hostile.clone()) });
        let ks = if mode.has_auth() { Some(1) } else { None };
        match rng.below(4) {
            0 => ev.push(Ev::SetupS { c: 2, cfg: cfg.clone(), kr: 8, ks, ks_pub: None, rng: rng_script(rng, kem), model_only: false }),
            1 => ev.push(Ev::SetupR { c: 2, cfg: cfg.clone(), kr: 0, ks, enc: EncSrc::Raw(b(hostile.clone())), model_only: false }),
            2 => {
                // honest enc, hostile sender identity key: only the second DH is degenerate
                let mut c2 = cfg.clone();
                if !c2.mode.has_auth() {
                    c2.mode = if c2.mode.has_psk() { ModeKind::AuthPsk } else { ModeKind::Auth };
                }
                ev.push(Ev::Keygen { k: 1, kem, ikm: ikm(rng) });
                ev.push(Ev::SetupS { c: 2, cfg: c2.clone(), kr: 0, ks: Some(1), ks_pub: None, rng: rng_script(rng, kem), model_only: false });
                ev.push(Ev::SetupR { c: 2, cfg: c2.clone(), kr: 0, ks: Some(8), enc: EncSrc::Of(2), model_only: false });
                ev.push(Ev::SingleShotOpenRaw { cfg: c2.clone(), kr: 0, ks: Some(8), enc: EncSrc::Of(2), ct: b(rng.bytes(20)), aad: b(vec![]), tag: None });
                ev.push(Ev::KemProbe { kem, kr: 0, ks: Some(8), rng: rng_script(rng, kem) });
            }
            _ => {
                ev.push(Ev::SingleShotOpenRaw { cfg: cfg.clone(), kr: 0, ks, enc: EncSrc::Raw(b(hostile.clone())), ct: b(rng.bytes(20)), aad: b(vec![]), tag: if rng.chance(1, 2) { Some(b(rng.bytes(16))) } else { None } });
                let (pt, aad) = msg(rng, false);
                ev.push(Ev::SingleShotSeal { c: 3, cfg: cfg.clone(), kr: 8, ks, ks_pub: None, rng: rng_script(rng, kem), pt, aad, inplace: rng.chance(1, 2) });
            }
        }
    }
    // lifecycle states: the same hostile inputs against a context at a far position or an exhausted one
    match rng.below(4) {
        0 => {
            let to = *rng.pick(&jump_targets());
            ev.push(Ev::Jump { c: 0, role: Role::S, to });
            ev.push(Ev::Jump { c: 0, role: Role::R, to });
        }
        1 => {
            ev.push(Ev::Jump { c: 0, role: Role::S, to: u64::MAX });
            ev.push(Ev::Jump { c: 0, role: Role::R, to: u64::MAX });
            ev.push(Ev::Seal { c: 0, pt: b(vec![9]), aad: b(vec![]), inplace: false });
            ev.push(Ev::Deliver { r: 0, from: 0, rec: RecRef::Next, fault: Fault::None, api: OpenApi::Alloc });
            // now both are exhausted
            for _ in 0..6 {
                let l = *rng.pick(&[0usize, 1, 2, 14, 15, 16, 17, 18, 31, 32, 33, 64, 255, 4096]);
                let tag = if rng.chance(1, 2) { Some(b({ let tl = *rng.pick(&[0usize, 15, 16, 16, 17]); rng.bytes(tl) })) } else { None };
                ev.push(Ev::RawOpen { r: 0, ct: b(rng.bytes(l)), aad: b(rng.var_bytes(20)), tag });
            }
            let (pt, aad) = msg(rng, false);
            ev.push(seal_ev(rng, 0, pt, aad));
        }
        _ => {}
    }
    // valid traffic with hostile modifications
    let (pt, aad) = msg(rng, true);
    ev.push(seal_ev(rng, 0, pt, aad));
    for _ in 0..4 {
        let api = *rng.pick(&[OpenApi::Alloc, OpenApi::InPlace, OpenApi::SingleShot, OpenApi::SingleShotInPlace]);
        ev.push(Ev::Deliver { r: 0, from: 0, rec: RecRef::Index(0), fault: gen_fault(rng), api });
    }
    // exports with long contexts and lengths up to 2^20
    for _ in 0..3 {
        let ctx = b(if rng.chance(1, 4) { rng.bytes(huge) } else { rng.var_bytes(64) });
        let len = *rng.pick(&[0usize, 1, 32, 8160, 8161, 12240, 12241, 16320, 16321, 65535, 65536, 65537, 1 << 20]);
        ev.push(Ev::Export { c: 0, role: if rng.chance(1, 2) { Role::S } else { Role::R }, ctx, len });
    }
    ev
}

// ---------------------------------------------------------------------------------- C14

pub fn gen_c14(rng: &mut Prng, run: u64, _t: &Tier) -> Vec<Ev> {
    if run % 3 == 0 {
        // twin histories with faults
        let o = HistOpts {
            sessions: 1,
            steps: rng.range(8, 60),
            jumps: true,
            exports: false,
            teardown: false,
            restart: true,
            single_shot: false,
            shim_ok: false,
            aeads: &SEAL_AEADS,
            export_lens: vec![],
            fault_rate: *rng.pick(&[0u64, 4, 8]),
        };
        return gen_history(rng, run / 3, &o);
    }
    let mut ev = vec![];
    let (mut suite, mode) = suite_mode_biased(run / 3, rng, &SEAL_AEADS, false);
    if rng.chance(1, 12) {
        suite.aead = AeadId::Export; // export-only: both forms must behave alike here too (panic / same error)
    }
    let kem = suite.kem;
    let cfg = gen_cfg(rng, suite, mode, 100);
    ev.push(Ev::Keygen { k: 0, kem, ikm: ikm(rng) });
    ev.push(Ev::Keygen { k: 1, kem, ikm: ikm(rng) });
    if kem == KemId::X25519 && rng.chance(1, 5) {
        // special-but-legal private keys for the recipient and / or the sender identity
        for k in 0..2 {
            if rng.chance(2, 3) {
                let sk = x25519_special_sk(rng);
                let pk = refhpke::pk_of(kem, &sk).unwrap();
                ev.push(Ev::KeyRaw { k, kem, sk: b(sk), pk: b(pk) });
            }
        }
    }
    let ks = if mode.has_auth() { Some(1) } else { None };
    let mut kr = 0;
    let failing = kem == KemId::X25519 && rng.chance(1, 5);
    if failing {
        // failure path: small-order recipient key => both forms fail with EncapError
        let small = math::x25519_small_order();
        ev.push(Ev::KeyRaw { k: 2, kem, sk: b(rng.rand_bytes(32)), pk: b(rng.pick(&small).clone()) });
        kr = 2;
    }
    let (pt, aad) = msg(rng, true);
    // now and then the (never validated) identity pair is mismatched: the claimed public key is
    // another key's; single-shot and composed forms must still agree byte for byte
    let ks_pub = if mode.has_auth() && rng.chance(1, 6) {
        ev.push(Ev::Keygen { k: 5, kem, ikm: ikm(rng) });
        Some(5)
    } else {
        None
    };
    ev.push(Ev::SingleShotSeal { c: 0, cfg: cfg.clone(), kr, ks, ks_pub, rng: rng_script(rng, kem), pt, aad, inplace: rng.chance(1, 2) });
    // receiver: single-shot open vs setup_receiver + open, on valid traffic and on every failure path
    let enc = if kem == KemId::X25519 && rng.chance(1, 6) { EncSrc::Raw(b(rng.pick(&math::x25519_small_order()).clone())) } else { EncSrc::Of(0) };
    ev.push(Ev::SetupR { c: 0, cfg: cfg.clone(), kr: 0, ks, enc: enc.clone(), model_only: false });
    for _ in 0..2 {
        let l = *rng.pick(&[0usize, 1, 15, 16, 17, 40]);
        let tag = if rng.chance(1, 2) { Some(b({ let tl = *rng.pick(&[0usize, 15, 16, 16, 17]); rng.bytes(tl) })) } else { None };
        ev.push(Ev::SingleShotOpenRaw { cfg: cfg.clone(), kr: 0, ks, enc: enc.clone(), ct: b(rng.bytes(l)), aad: b(rng.var_bytes(10)), tag });
    }
    for _ in 0..rng.range(1, 4) {
        let fault = if rng.chance(1, 2) { Fault::None } else { gen_fault(rng) };
        // the same (record, fault) through all four interfaces; the receiver is re-pinned by a restart
        for api in [OpenApi::SingleShot, OpenApi::SingleShotInPlace, OpenApi::Alloc] {
            ev.push(Ev::Deliver { r: 0, from: 0, rec: RecRef::Index(0), fault: fault.clone(), api });
            ev.push(Ev::Jump { c: 0, role: Role::R, to: 0 });
        }
    }
    if !suite.aead.seals() {
        // export-only contexts: the allocating and the in-place open behave alike on any input (both
        // panic, whatever the length: shorter than a tag, exactly a tag, longer)
        for l in [0usize, 1, 15, 16, 17, 40] {
            ev.push(Ev::RawOpen { r: 0, ct: b(rng.bytes(l)), aad: b(rng.var_bytes(8)), tag: None });
            ev.push(Ev::RawOpen { r: 0, ct: b(rng.bytes(l)), aad: b(rng.var_bytes(8)), tag: Some(b(vec![])) });
        }
    }
    if suite.aead.seals() && rng.chance(1, 4) {
        // a first message whose *ciphertext* begins with the encapsulated key (or the recipient key, the
        // info string, ...): every opening interface must treat it like any other ciphertext
        ev.push(Ev::SetupS { c: 1, cfg: cfg.clone(), kr: 0, ks, ks_pub: None, rng: rng_script(rng, kem), model_only: false });
        let craft = *rng.pick(&[Craft::PrefixEnc, Craft::PrefixEnc, Craft::PrefixPkR, Craft::PrefixInfo, Craft::PrefixAad, Craft::Zeros, Craft::Ones]);
        let len = *rng.pick(&[0usize, 1, 15, 16, 17, 40]);
        ev.push(Ev::SealCrafted { c: 1, craft, len, aad: b(rng.var_bytes(20)), inplace: rng.chance(1, 2) });
        ev.push(Ev::SetupR { c: 1, cfg: cfg.clone(), kr: 0, ks, enc: EncSrc::Of(1), model_only: false });
        for api in [OpenApi::SingleShot, OpenApi::SingleShotInPlace, OpenApi::Alloc, OpenApi::InPlace] {
            ev.push(Ev::Deliver { r: 1, from: 1, rec: RecRef::Index(0), fault: Fault::None, api });
            ev.push(Ev::Jump { c: 1, role: Role::R, to: 0 });
        }
    }
    ev
}

// ---------------------------------------------------------------------------------- C15

pub fn gen_c15(rng: &mut Prng, run: u64, _t: &Tier) -> Vec<Ev> {
    let mut ev = vec![];
    // constructor law at every length of the table, the four emptiness combinations
    for _ in 0..8 {
        let l1 = if rng.chance(1, 3) { 0 } else { rng.length(70001) };
        let l2 = if rng.chance(1, 3) { 0 } else { rng.length(70001) };
        let psk = rng.bytes(l1);
        let psk_id = if rng.chance(1, 4) && l1 == l2 { psk.clone() } else { rng.bytes(l2) };
        ev.push(Ev::PskProbe { psk: b(psk), psk_id: b(psk_id) });
    }
    for (a, c) in [(0usize, 0usize), (0, 1), (1, 0), (1, 1)] {
        ev.push(Ev::PskProbe { psk: b(vec![0u8; a]), psk_id: b(vec![0u8; c]) });
    }
    {
        // equal contents are a legal bundle too
        let same = rng.var_bytes(64);
        ev.push(Ev::PskProbe { psk: b(same.clone()), psk_id: b(same) });
    }
    {
        // related values: one a prefix / suffix / reversal of the other (an id cut from the key, a key
        // derived by extending the id, ...): all legal
        let ll = rng.range(2, 48);
        let long = rng.rand_bytes(ll);
        let k = rng.range(1, long.len() - 1);
        let (x, y) = match rng.below(4) {
            0 => (long.clone(), long[..k].to_vec()),
            1 => (long[..k].to_vec(), long.clone()),
            2 => (long.clone(), long[long.len() - k..].to_vec()),
            _ => (long.clone(), long.iter().rev().copied().collect()),
        };
        ev.push(Ev::PskProbe { psk: b(x), psk_id: b(y) });
    if run % 4000 == 17 {
        // lengths whose product or sum wraps in 32 or 64 bits (a handful per batch: each maps up to 8 GiB of zero pages without touching them)
        let ls = [1u64 << 31, (1 << 31) + 1, 1 << 32, (1 << 32) - 1, (1 << 32) + 1, 1 << 33, 1 << 16, 3, 0];
        let a = *rng.pick(&ls);
        let c = *rng.pick(&ls);
        ev.push(Ev::PskLenProbe { psk_len: a, id_len: c });
        ev.push(Ev::PskLenProbe { psk_len: 1 << 32, id_len: 1 << 32 });
        ev.push(Ev::PskLenProbe { psk_len: 1 << 31, id_len: 1 << 33 });
        ev.push(Ev::PskLenProbe { psk_len: 1 << 33, id_len: 0 });
    }
    }
    // sessions against the model: psk != psk_id so that a swap is visible
    let (suite, mode) = suite_mode_biased(run, rng, &ALL_AEADS, false);
    let mut cfg = gen_cfg(rng, suite, mode, 100);
    if mode.has_psk() && rng.chance(1, 8) {
        // the (permitted) empty bundle
        cfg.psk = b(vec![]);
        cfg.psk_id = b(vec![]);
    } else if mode.has_psk() && rng.chance(1, 10) {
        cfg.psk_id = cfg.psk.clone();
    }
    setup_pair(&mut ev, rng, 0, &cfg, false, false);
    if suite.aead.seals() {
        for _ in 0..2 {
            let (pt, aad) = msg(rng, false);
            ev.push(seal_ev(rng, 0, pt, aad));
            ev.push(Ev::Deliver { r: 0, from: 0, rec: RecRef::Next, fault: Fault::None, api: open_api(rng) });
        }
    }
    for role in [Role::S, Role::R] {
        ev.push(Ev::Export { c: 0, role, ctx: b(rng.var_bytes(20)), len: 32 });
    }
    // lone key / lone identifier handed to a setup: rejected before any context exists
    if rng.chance(1, 3) {
        let mut bad = cfg.clone();
        bad.mode = if rng.chance(1, 2) { ModeKind::Psk } else { ModeKind::AuthPsk };
        if rng.chance(1, 2) {
            bad.psk = b(vec![]);
            bad.psk_id = b(rng.rand_bytes(5));
        } else {
            bad.psk = b(rng.rand_bytes(5));
            bad.psk_id = b(vec![]);
        }
        ev.push(Ev::Keygen { k: 1, kem: suite.kem, ikm: ikm(rng) });
        ev.push(Ev::SetupS { c: 1, cfg: bad, kr: 0, ks: Some(1), ks_pub: None, rng: rng_script(rng, suite.kem), model_only: false });
    }
    ev
}

// ---------------------------------------------------------------------------------- C16

pub fn gen_c16(rng: &mut Prng, run: u64, _t: &Tier) -> Vec<Ev> {
    let o = HistOpts {
        sessions: rng.range(1, 2),
        steps: rng.range(0, 25),
        jumps: rng.chance(1, 3),
        exports: rng.chance(1, 2),
        teardown: true,
        restart: true,
        single_shot: true,
        shim_ok: true,
        aeads: &ALL_AEADS,
        export_lens: vec![],
        fault_rate: *rng.pick(&[0u64, 4, 8]),
    };
    let mut ev = gen_history(rng, run, &o);
    if rng.chance(1, 4) {
        ev.push(Ev::Jump { c: 0, role: Role::S, to: u64::MAX });
        ev.push(Ev::Seal { c: 0, pt: b(vec![1, 2, 3]), aad: b(vec![]), inplace: false });
        ev.push(Ev::Seal { c: 0, pt: b(vec![1, 2, 3]), aad: b(vec![]), inplace: false });
    }
    for c in 0..o.sessions {
        if rng.chance(1, 4) {
            ev.push(Ev::TeardownUnwinding { c, role: Role::S });
            ev.push(Ev::TeardownUnwinding { c, role: Role::R });
        } else {
            ev.push(Ev::Teardown { c, role: Role::S });
            ev.push(Ev::Teardown { c, role: Role::R });
        }
    }
    if !crate::special::SS_TABLE.is_empty() && rng.chance(1, 12) {
        // an AuthEncap whose *shared secret* has a special shape (four zero bytes in front, at the end,
        // or at every 8th position; found by search over the claimed sender key, special.rs)
        let e = rng.pick(crate::special::SS_TABLE);
        let kem = KemId::X25519;
        let (sk_s, _, _) = refhpke::derive_keypair(kem, crate::special::SS_IKM_S);
        ev.push(Ev::Keygen { k: 24, kem, ikm: b(crate::special::SS_IKM_R.to_vec()) });
        ev.push(Ev::KeyRaw { k: 25, kem, sk: b(sk_s), pk: b(unhex(e.claimed_pk_s)) });
        ev.push(Ev::KemProbe { kem, kr: 24, ks: Some(25), rng: b(crate::special::SS_SCRIPT.to_vec()) });
    }
    // KEM-only exchanges for the shared secret
    let kem = KEMS[(run % 4) as usize];
    ev.push(Ev::Keygen { k: 20, kem, ikm: ikm(rng) });
    ev.push(Ev::Keygen { k: 21, kem, ikm: ikm(rng) });
    ev.push(Ev::KemProbe { kem, kr: 20, ks: if rng.chance(1, 2) { Some(21) } else { None }, rng: rng_script(rng, kem) });
    // a setup that fails on the second DH (X25519, small-order identity key at the receiver)
    if rng.chance(1, 4) {
        let small = math::x25519_small_order();
        let suite = SuiteId { kem: KemId::X25519, kdf: KdfId::S256, aead: AeadId::ChaCha, shim: false };
        let cfg = gen_cfg(rng, suite, ModeKind::Auth, 10);
        ev.push(Ev::Keygen { k: 30, kem: KemId::X25519, ikm: ikm(rng) });
        ev.push(Ev::Keygen { k: 31, kem: KemId::X25519, ikm: ikm(rng) });
        ev.push(Ev::KeyRaw { k: 32, kem: KemId::X25519, sk: b(rng.rand_bytes(32)), pk: b(rng.pick(&small).clone()) });
        ev.push(Ev::SetupS { c: 7, cfg: cfg.clone(), kr: 30, ks: Some(31), ks_pub: None, rng: rng_script(rng, KemId::X25519), model_only: false });
        ev.push(Ev::SetupR { c: 7, cfg, kr: 30, ks: Some(32), enc: EncSrc::Of(7), model_only: false });
    }
    ev
}

pub fn generate(p: P, rng: &mut Prng, run: u64, t: &Tier) -> Vec<Ev> {
    match p {
        P::C01 => gen_c01(rng, run, t),
        P::C02 => gen_c02(rng, run, t),
        P::C03 => gen_c03(rng, run, t),
        P::C04 => gen_c04(rng, run, t),
        P::C05 => gen_c05(rng, run, t),
        P::C06 => gen_c06(rng, run, t),
        P::C07 => gen_c07(rng, run, t),
        P::C08 => gen_c08(rng, run, t),
        P::C09 => gen_c09(rng, run, t),
        P::C10 => gen_c10(rng, run, t),
        P::C11 => gen_c11(rng, run, t),
        P::C12 => gen_c12(rng, run, t),
        P::C13 => gen_c13(rng, run, t),
        P::C14 => gen_c14(rng, run, t),
        P::C15 => gen_c15(rng, run, t),
        P::C16 => gen_c16(rng, run, t),
        P::C18 => crate::c18::gen_c18(rng, run, t),
    }
}
