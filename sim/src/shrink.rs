//! Minimiser: delta debugging over the event list, then per-event simplification. A candidate is
//! accepted only if the *same invariant class* still fails.

use crate::cov::Cov;
use crate::events::*;
use crate::util::B;
use crate::world_probes::execute;
use std::time::{Duration, Instant};

/// Invariant class: the tamper-variant prefix is not part of the class
pub fn inv_class(inv: &str) -> &str {
    if inv.starts_with("tamper[") {
        if let Some(i) = inv.find("].") {
            return &inv[i + 2..];
        }
    }
    inv
}

fn tamper_index(inv: &str) -> Option<usize> {
    if inv.starts_with("tamper[") {
        let rest = &inv[7..];
        let end = rest.find(':')?;
        return rest[..end].parse().ok();
    }
    None
}

pub struct Shrinker {
    pub execs: usize,
    pub max_execs: usize,
    pub deadline: Instant,
}

impl Shrinker {
    pub fn new(max_execs: usize, secs: u64) -> Shrinker {
        Shrinker { execs: 0, max_execs, deadline: Instant::now() + Duration::from_secs(secs) }
    }
    fn budget_left(&self) -> bool {
        self.execs < self.max_execs && Instant::now() < self.deadline
    }
    fn fails(&mut self, case: &Case, class: &str) -> Option<Violation> {
        self.execs += 1;
        let mut cov = Cov::new();
        let r = std::panic::catch_unwind(std::panic::AssertUnwindSafe(|| execute(case, &mut cov)));
        match r {
            Ok(Some(v)) if inv_class(&v.invariant) == class => Some(v),
            _ => None,
        }
    }

    pub fn minimise(&mut self, case: &Case, viol: &Violation) -> (Case, Violation) {
        let class = inv_class(&viol.invariant).to_string();
        let mut best = case.clone();
        let mut bestv = viol.clone();
        // events after the failing one are irrelevant
        if bestv.at_event + 1 < best.events.len() {
            let mut c = best.clone();
            c.events.truncate(bestv.at_event + 1);
            if let Some(v) = self.fails(&c, &class) {
                best = c;
                bestv = v;
            }
        }
        // ddmin
        let mut n = 2usize;
        while best.events.len() >= 2 && self.budget_left() {
            let len = best.events.len();
            let chunk = (len + n - 1) / n;
            let mut reduced = false;
            let mut start = 0;
            while start < len && self.budget_left() {
                let end = (start + chunk).min(len);
                let mut c = best.clone();
                c.events.drain(start..end);
                if !c.events.is_empty() {
                    if let Some(v) = self.fails(&c, &class) {
                        best = c;
                        bestv = v;
                        n = (n - 1).max(2);
                        reduced = true;
                        break;
                    }
                }
                start = end;
            }
            if !reduced {
                if chunk == 1 {
                    break;
                }
                n = (n * 2).min(len);
            }
        }
        // per-event simplification, to a fixed point
        let mut changed = true;
        while changed && self.budget_left() {
            changed = false;
            for i in 0..best.events.len() {
                for cand in simplify(&best.events[i], &bestv) {
                    if !self.budget_left() {
                        break;
                    }
                    let mut c = best.clone();
                    c.events[i] = cand;
                    if let Some(v) = self.fails(&c, &class) {
                        best = c;
                        bestv = v;
                        changed = true;
                        break;
                    }
                }
            }
        }
        (best, bestv)
    }
}

fn shorter(b: &B) -> Vec<B> {
    let mut out = vec![];
    if b.is_empty() {
        return out;
    }
    out.push(B(vec![]));
    if b.len() > 1 {
        out.push(B(b[..b.len() / 2].to_vec()));
        out.push(B(b[..b.len() - 1].to_vec()));
    }
    if b.iter().any(|x| *x != 0) {
        out.push(B(vec![0u8; b.len()]));
    }
    out
}

fn simpler_cfg(cfg: &Cfg) -> Vec<Cfg> {
    let mut out = vec![];
    for i in shorter(&cfg.info) {
        let mut c = cfg.clone();
        c.info = i;
        out.push(c);
    }
    if cfg.suite.shim {
        let mut c = cfg.clone();
        c.suite.shim = false;
        out.push(c);
    }
    if !cfg.mode.has_psk() && (!cfg.psk.is_empty() || !cfg.psk_id.is_empty()) {
        let mut c = cfg.clone();
        c.psk = B(vec![]);
        c.psk_id = B(vec![]);
        out.push(c);
    }
    out
}

/// Candidate simplifications of one event
fn simplify(ev: &Ev, viol: &Violation) -> Vec<Ev> {
    let mut out = vec![];
    match ev {
        Ev::Seal { c, pt, aad, inplace } => {
            for p in shorter(pt) {
                out.push(Ev::Seal { c: *c, pt: p, aad: aad.clone(), inplace: *inplace });
            }
            for a in shorter(aad) {
                out.push(Ev::Seal { c: *c, pt: pt.clone(), aad: a, inplace: *inplace });
            }
            if *inplace {
                out.push(Ev::Seal { c: *c, pt: pt.clone(), aad: aad.clone(), inplace: false });
            }
        }
        Ev::SealMany { c, n, len, inplace } => {
            for m in [1u32, n / 2, n.saturating_sub(1)] {
                if m < *n && m > 0 {
                    out.push(Ev::SealMany { c: *c, n: m, len: *len, inplace: *inplace });
                }
            }
            if *len > 0 {
                out.push(Ev::SealMany { c: *c, n: *n, len: 0, inplace: *inplace });
            }
        }
        Ev::Pump { r, from, n, len, inplace_s, inplace_r } => {
            for m in [1u32, n / 2, n.saturating_sub(1)] {
                if m < *n && m > 0 {
                    out.push(Ev::Pump { r: *r, from: *from, n: m, len: *len, inplace_s: *inplace_s, inplace_r: *inplace_r });
                }
            }
            if *len > 0 {
                out.push(Ev::Pump { r: *r, from: *from, n: *n, len: 0, inplace_s: *inplace_s, inplace_r: *inplace_r });
            }
        }
        Ev::Deliver { r, from, rec, fault, api } => {
            if *fault != Fault::None {
                out.push(Ev::Deliver { r: *r, from: *from, rec: *rec, fault: Fault::None, api: *api });
            }
            if let Fault::Garbage(g) = fault {
                for s in shorter(g) {
                    out.push(Ev::Deliver { r: *r, from: *from, rec: *rec, fault: Fault::Garbage(s), api: *api });
                }
            }
            if *api != OpenApi::Alloc {
                out.push(Ev::Deliver { r: *r, from: *from, rec: *rec, fault: fault.clone(), api: OpenApi::Alloc });
            }
        }
        Ev::TamperSweep { r, from, rec, api, max_bits, only } => {
            if only.is_none() {
                if let Some(i) = tamper_index(&viol.invariant) {
                    out.push(Ev::TamperSweep { r: *r, from: *from, rec: *rec, api: *api, max_bits: *max_bits, only: Some(i) });
                }
            }
        }
        Ev::Export { c, role, ctx, len } => {
            for x in shorter(ctx) {
                out.push(Ev::Export { c: *c, role: *role, ctx: x, len: *len });
            }
        }
        Ev::ExportCmp { s, r, ctx, len } => {
            for x in shorter(ctx) {
                out.push(Ev::ExportCmp { s: *s, r: *r, ctx: x, len: *len });
            }
        }
        Ev::SetupS { c, cfg, kr, ks, ks_pub, rng, model_only } => {
            for x in simpler_cfg(cfg) {
                out.push(Ev::SetupS { c: *c, cfg: x, kr: *kr, ks: *ks, ks_pub: *ks_pub, rng: rng.clone(), model_only: *model_only });
            }
        }
        Ev::SetupR { c, cfg, kr, ks, enc, model_only } => {
            for x in simpler_cfg(cfg) {
                out.push(Ev::SetupR { c: *c, cfg: x, kr: *kr, ks: *ks, enc: enc.clone(), model_only: *model_only });
            }
        }
        Ev::SingleShotSeal { c, cfg, kr, ks, ks_pub, rng, pt, aad, inplace } => {
            for p in shorter(pt) {
                out.push(Ev::SingleShotSeal { c: *c, cfg: cfg.clone(), kr: *kr, ks: *ks, ks_pub: *ks_pub, rng: rng.clone(), pt: p, aad: aad.clone(), inplace: *inplace });
            }
            for a in shorter(aad) {
                out.push(Ev::SingleShotSeal { c: *c, cfg: cfg.clone(), kr: *kr, ks: *ks, ks_pub: *ks_pub, rng: rng.clone(), pt: pt.clone(), aad: a, inplace: *inplace });
            }
            for x in simpler_cfg(cfg) {
                out.push(Ev::SingleShotSeal { c: *c, cfg: x, kr: *kr, ks: *ks, ks_pub: *ks_pub, rng: rng.clone(), pt: pt.clone(), aad: aad.clone(), inplace: *inplace });
            }
        }
        Ev::RawOpen { r, ct, aad, tag } => {
            for x in shorter(ct) {
                out.push(Ev::RawOpen { r: *r, ct: x, aad: aad.clone(), tag: tag.clone() });
            }
            for x in shorter(aad) {
                out.push(Ev::RawOpen { r: *r, ct: ct.clone(), aad: x, tag: tag.clone() });
            }
        }
        Ev::DeriveProbe { kem, ikm } => {
            for x in shorter(ikm) {
                out.push(Ev::DeriveProbe { kem: *kem, ikm: x });
            }
        }
        Ev::PskProbe { psk, psk_id } => {
            if psk.len() > 1 {
                out.push(Ev::PskProbe { psk: B(vec![psk[0]]), psk_id: psk_id.clone() });
            }
            if psk_id.len() > 1 {
                out.push(Ev::PskProbe { psk: psk.clone(), psk_id: B(vec![psk_id[0]]) });
            }
        }
        Ev::RejectBurst { r, from, n } => {
            for m in [n / 2, n.saturating_sub(1), n.saturating_sub(n / 16)] {
                if m < *n && m > 0 {
                    out.push(Ev::RejectBurst { r: *r, from: *from, n: m });
                }
            }
        }
        Ev::OnNested { w, t, inner, at, nested } => {
            // no preemption at all; fewer nested operations; an earlier seam
            out.push(Ev::On { w: *w, t: *t, inner: inner.clone() });
            for i in 0..nested.len() {
                if nested.len() > 1 {
                    let mut n = nested.clone();
                    n.remove(i);
                    out.push(Ev::OnNested { w: *w, t: *t, inner: inner.clone(), at: *at, nested: n });
                }
            }
            if *at > 0 {
                out.push(Ev::OnNested { w: *w, t: *t, inner: inner.clone(), at: 0, nested: nested.clone() });
            }
            for (i, n) in nested.iter().enumerate() {
                for x in simplify(n, viol) {
                    let mut nn = nested.clone();
                    nn[i] = x;
                    out.push(Ev::OnNested { w: *w, t: *t, inner: inner.clone(), at: *at, nested: nn });
                }
            }
            for x in simplify(inner, viol) {
                out.push(Ev::OnNested { w: *w, t: *t, inner: Box::new(x), at: *at, nested: nested.clone() });
            }
        }
        Ev::On { w, t, inner } => {
            if *t != 0 {
                out.push(Ev::On { w: *w, t: 0, inner: inner.clone() });
            }
            for x in simplify(inner, viol) {
                out.push(Ev::On { w: *w, t: *t, inner: Box::new(x) });
            }
        }
        _ => {}
    }
    out
}
