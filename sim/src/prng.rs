//! The single source of choice: splitmix64 seeding + xoshiro256**. Implemented here so that results
//! do not depend on the version of any `rand` crate.

#[derive(Clone, Debug)]
pub struct Prng {
    s: [u64; 4],
}

pub fn splitmix64(state: &mut u64) -> u64 {
    *state = state.wrapping_add(0x9E37_79B9_7F4A_7C15);
    let mut z = *state;
    z = (z ^ (z >> 30)).wrapping_mul(0xBF58_476D_1CE4_E5B9);
    z = (z ^ (z >> 27)).wrapping_mul(0x94D0_49BB_1331_11EB);
    z ^ (z >> 31)
}

/// FNV-1a over a tag string; used to separate the streams of different properties
pub fn tag(s: &str) -> u64 {
    let mut h = 0xcbf2_9ce4_8422_2325u64;
    for b in s.bytes() {
        h ^= b as u64;
        h = h.wrapping_mul(0x0000_0100_0000_01B3);
    }
    h
}

/// run_seed = f(master seed, property tag, run index)
pub fn run_seed(master: u64, prop: &str, run_index: u64) -> u64 {
    let mut st = master ^ tag(prop);
    let a = splitmix64(&mut st);
    let mut st2 = a ^ run_index.wrapping_mul(0xD6E8_FEB8_6659_FD93);
    splitmix64(&mut st2)
}

/// Boundary-biased length table (DESIGN §2.7)
pub const LEN_TABLE: &[usize] = &[
    0, 1, 2, 7, 8, 9, 15, 16, 17, 31, 32, 33, 47, 48, 49, 63, 64, 65, 127, 128, 129, 255, 256, 257,
    1023, 1024, 4095, 4096, 4097, 16383, 16384, 65535, 65536, 65537, 70001,
];

impl Prng {
    pub fn new(seed: u64) -> Prng {
        let mut st = seed;
        let s = [
            splitmix64(&mut st),
            splitmix64(&mut st),
            splitmix64(&mut st),
            splitmix64(&mut st),
        ];
        Prng { s }
    }

    pub fn next_u64(&mut self) -> u64 {
        let result = self.s[1].wrapping_mul(5).rotate_left(7).wrapping_mul(9);
        let t = self.s[1] << 17;
        self.s[2] ^= self.s[0];
        self.s[3] ^= self.s[1];
        self.s[1] ^= self.s[2];
        self.s[0] ^= self.s[3];
        self.s[2] ^= t;
        self.s[3] = self.s[3].rotate_left(45);
        result
    }

    /// Uniform in 0..n (n > 0). Slight modulo bias is irrelevant here.
    pub fn below(&mut self, n: u64) -> u64 {
        debug_assert!(n > 0);
        self.next_u64() % n
    }

    pub fn range(&mut self, lo: usize, hi_incl: usize) -> usize {
        lo + self.below((hi_incl - lo + 1) as u64) as usize
    }

    pub fn chance(&mut self, num: u64, den: u64) -> bool {
        self.below(den) < num
    }

    pub fn pick<'a, T>(&mut self, xs: &'a [T]) -> &'a T {
        &xs[self.below(xs.len() as u64) as usize]
    }

    pub fn fill(&mut self, buf: &mut [u8]) {
        for chunk in buf.chunks_mut(8) {
            let v = self.next_u64().to_le_bytes();
            chunk.copy_from_slice(&v[..chunk.len()]);
        }
    }

    /// Geometric-ish small number: 0 with p=1/2, 1 with 1/4, ...
    pub fn geometric(&mut self, cap: usize) -> usize {
        let mut n = 0;
        while n < cap && self.chance(1, 2) {
            n += 1;
        }
        n
    }

    /// A length from the boundary-biased table mixed with small and uniform lengths, capped.
    pub fn length(&mut self, cap: usize) -> usize {
        let l = match self.below(10) {
            0..=3 => {
                // table entry not exceeding cap
                let mut l = *self.pick(LEN_TABLE);
                let mut tries = 0;
                while l > cap && tries < 8 {
                    l = *self.pick(LEN_TABLE);
                    tries += 1;
                }
                l
            }
            4..=7 => self.geometric(40),
            _ => self.below(300) as usize,
        };
        l.min(cap)
    }

    /// A length at or near a systems boundary (MTUs, pages, record sizes): code that special-cases
    /// "small packets" or stack buffers tends to go wrong within a tag length of one of these
    pub fn sys_len(&mut self) -> usize {
        const B: &[usize] = &[512, 576, 1024, 1200, 1280, 1400, 1460, 1472, 1500, 2048, 4096, 8192, 9000, 16384];
        let b = *self.pick(B);
        let d = self.below(41) as usize; // -20 ..= +20
        (b + d).saturating_sub(20)
    }

    /// Bytes with a varied byte distribution
    pub fn bytes(&mut self, len: usize) -> Vec<u8> {
        let mut v = vec![0u8; len];
        match self.below(8) {
            0 => {}                                   // zeros
            1 => v.iter_mut().for_each(|b| *b = 0xFF), // ones
            2 => {
                let p = self.range(1, 4);
                let mut pat = vec![0u8; p];
                self.fill(&mut pat);
                for (i, b) in v.iter_mut().enumerate() {
                    *b = pat[i % p];
                }
            }
            3 => {
                for b in v.iter_mut() {
                    *b = 0x20 + (self.below(95) as u8);
                }
            }
            _ => self.fill(&mut v),
        }
        v
    }

    /// Random bytes (always high entropy; used for keys and unique plaintext markers)
    pub fn rand_bytes(&mut self, len: usize) -> Vec<u8> {
        let mut v = vec![0u8; len];
        self.fill(&mut v);
        v
    }

    pub fn var_bytes(&mut self, cap: usize) -> Vec<u8> {
        let l = self.length(cap);
        self.bytes(l)
    }
}
