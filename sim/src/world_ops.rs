//! World, part 2: traffic events (seal, deliver, tamper sweep, export, jump, teardown).

use crate::cov::{pos_class, Cov};
use crate::events::*;
use crate::refhpke;
use crate::shim::{self, ShimOp};
use crate::suites::*;
use crate::util::{hex, short_hex};
use crate::world::*;

/// What the ideal channel predicts for one delivery
#[derive(Clone, Debug, PartialEq, Eq)]
pub enum Pred {
    Accept(Vec<u8>),
    Reject(E),
    BadTag(usize, usize),
    Panics,
}

pub fn nt_pub(cfg: &Cfg) -> usize {
    cfg.suite.aead.rfc_sizes().2
}

fn nt_of(cfg: &Cfg) -> usize {
    cfg.suite.aead.rfc_sizes().2
}

impl World {
    pub fn model_advance(seq: &mut u64, over: &mut bool) {
        match seq.checked_add(1) {
            Some(n) => *seq = n,
            None => *over = true,
        }
    }

    // ------------------------------------------------------------------------------ seal

    pub fn ev_seal(&mut self, c: usize, pt: &[u8], aad: &[u8], inplace: bool, cov: &mut Cov) -> V {
        let p = self.p;
        let ev_idx = self.ev_idx;
        let sc = match self.scs.get_mut(c).and_then(|x| x.as_mut()) {
            Some(s) => s,
            None => return Ok(()),
        };
        let viol = |inv: &str, e: String, o: String| Violation { property: p.name().into(), invariant: inv.into(), at_event: ev_idx, expected: e, observed: o };
        let nt = nt_of(&sc.cfg);
        // model-only sender (refhpke produces the traffic)
        if sc.real.is_none() {
            if let Some(rc) = &sc.refc {
                if sc.m_over || !sc.cfg.suite.aead.seals() {
                    return Ok(());
                }
                let ct = rc.seal_at(sc.m_seq as u128, aad, pt);
                let idx = self.recs.len();
                self.recs.push(Rec { ident: sc.ident, seq: sc.m_seq, ct, aad: aad.to_vec(), pt: pt.to_vec() });
                sc.recs.push(idx);
                Self::model_advance(&mut sc.m_seq, &mut sc.m_over);
                cov.hit("seal.model_only");
            }
            return Ok(());
        }
        let real = sc.real.as_mut().unwrap();
        let shimmed = sc.cfg.suite.shim;
        if shimmed {
            shim::set_recording(true);
            if sc.fail_armed {
                shim::arm_failure();
            }
        }
        let armed = shimmed && sc.fail_armed;
        sc.fail_armed = false;
        let mut buf = pt.to_vec();
        let hmask = std::cell::Cell::new(0u32);
        let hpats = if p == P::C16 { pats_of(sc.refc.as_ref()) } else { vec![] };
        let res: Res<Vec<u8>> = if inplace {
            hw(p == P::C16, &hpats, &hmask, || real.seal_in_place(&mut buf, aad)).map(|tag| {
                let mut v = buf.clone();
                v.extend_from_slice(&tag);
                v
            })
        } else {
            hw(p == P::C16, &hpats, &hmask, || real.seal(pt, aad))
        };
        if let Some(n) = heap_viol(hmask.get()) {
            return Err(viol(&format!("drop.{}-left-in-freed-heap-memory", n), format!("no heap block freed during seal still holds the {}", n), "found in a block at the moment it was freed".into()));
        }
        cov.ops += 1;
        let log = if shimmed { shim::take_log() } else { vec![] };
        if shimmed {
            shim::disarm_failure();
        }
        tx_res(&mut self.tx, &res);
        let pc = pos_class(sc.m_seq, sc.m_over);
        cov.hit(&format!("seal.{}.{}.{:?}.{}", pc, if inplace { "inplace" } else { "alloc" }, sc.cfg.suite.aead, out_class_s(&res)));
        cov.sig_event("Seal", &format!("{}{}", pc, out_class_s(&res)));
        cov.pos(sc.m_seq);

        // export-only: sealing panics instead of producing output (C11)
        if !sc.cfg.suite.aead.seals() {
            return match res {
                Err(Fail::Panic(_)) => {
                    cov.hit("probe.export_only_seal_panics");
                    Ok(())
                }
                other => Err(viol("export-only.seal-must-panic", "panic".into(), res_s(&other))),
            };
        }

        // expected outcome
        if sc.m_over {
            if res != Err(Fail::Hpke(E::MessageLimitReached)) {
                return Err(viol("seal.limit-latched", "Err(MessageLimitReached) forever after exhaustion".into(), res_s(&res)));
            }
            if inplace && buf != pt {
                return Err(viol("seal.limit-buffer-untouched", format!("buffer unchanged: {}", short_hex(pt)), short_hex(&buf)));
            }
            if log.iter().any(|o| matches!(o, ShimOp::Encrypt { .. })) {
                return Err(viol("seal.limit-no-encryption", "no AEAD call after exhaustion".into(), format!("{:?}", log)));
            }
            cov.hit("probe.seal_after_exhaustion");
        } else if armed {
            if res != Err(Fail::Hpke(E::SealError)) {
                return Err(viol("seal.injected-failure", "Err(SealError) when the AEAD primitive fails".into(), res_s(&res)));
            }
            cov.hit("fault.aead_encrypt_failure");
        } else {
            let ct = match &res {
                Ok(ct) => ct.clone(),
                Err(f) => return Err(viol("seal.result", format!("Ok(ciphertext) at position {}", sc.m_seq), format!("Err({})", short(f)))),
            };
            if matches!(p, P::C01 | P::C14 | P::C04 | P::C02) {
                if ct.len() != pt.len() + nt {
                    return Err(viol("seal.length", format!("|ct| = |pt| + Nt = {}", pt.len() + nt), format!("{}", ct.len())));
                }
                if inplace && buf.len() != pt.len() {
                    return Err(viol("seal.inplace-length", format!("{}", pt.len()), format!("{}", buf.len())));
                }
            }
            // C04: nonce law observed at the AEAD seam
            if shimmed && p == P::C04 {
                let encs: Vec<&Vec<u8>> = log.iter().filter_map(|o| if let ShimOp::Encrypt { nonce, .. } = o { Some(nonce) } else { None }).collect();
                if encs.len() != 1 {
                    return Err(viol("seal.one-aead-call", "exactly one AEAD encryption per seal".into(), format!("{}", encs.len())));
                }
                let nonce = encs[0].clone();
                let nn = nonce.len();
                let seqb = {
                    let mut v = vec![0u8; nn];
                    let be = sc.m_seq.to_be_bytes();
                    v[nn - 8..].copy_from_slice(&be);
                    v
                };
                match &sc.n0 {
                    None => {
                        let n0: Vec<u8> = nonce.iter().zip(seqb.iter()).map(|(a, b)| a ^ b).collect();
                        sc.n0 = Some(n0);
                    }
                    Some(n0) => {
                        let want: Vec<u8> = n0.iter().zip(seqb.iter()).map(|(a, b)| a ^ b).collect();
                        if want != nonce {
                            return Err(viol("seal.nonce-law", format!("nonce = base_nonce xor BE({}) = {}", sc.m_seq, hex(&want)), hex(&nonce)));
                        }
                    }
                }
                if sc.nonces.len() < 200_000 && !sc.nonces.insert(nonce.clone()) {
                    return Err(viol("seal.nonce-reuse", "a nonce never used before by this context".into(), hex(&nonce)));
                }
                if let Some(key) = &sc.aead_key {
                    let want = refhpke::aead_seal(sc.cfg.suite.aead, key, &nonce, aad, pt);
                    if want != ct {
                        return Err(viol("seal.ciphertext-is-aead-of-inputs", format!("AEAD(key, nonce, aad, pt) = {}", short_hex(&want)), short_hex(&ct)));
                    }
                }
            }
            if matches!(p, P::C02 | P::C15) {
                if let Some(rc) = &sc.refc {
                    let want = rc.seal_at(sc.m_seq as u128, aad, pt);
                    if want != ct {
                        return Err(viol("seal.rfc-bytes", format!("RFC 9180 ContextS.Seal at seq {} = {}", sc.m_seq, short_hex(&want)), short_hex(&ct)));
                    }
                    cov.hit("seal.compared_with_refhpke");
                }
            }
            let idx = self.recs.len();
            self.recs.push(Rec { ident: sc.ident, seq: sc.m_seq, ct, aad: aad.to_vec(), pt: pt.to_vec() });
            sc.recs.push(idx);
            if sc.m_seq == u64::MAX {
                cov.hit("probe.sealed_at_2^64-1");
            }
            Self::model_advance(&mut sc.m_seq, &mut sc.m_over);
        }
        // hook cross-invariant
        if p == P::C04 {
            let st = real.seq_state();
            if st != (sc.m_seq, sc.m_over) {
                return Err(viol("seal.counter-law", format!("(seq, overflowed) = ({}, {})", sc.m_seq, sc.m_over), format!("{:?}", st)));
            }
        }
        // C14: the twin goes through the other API form
        if p == P::C14 {
            if let Some(twin) = sc.twin.as_mut() {
                let mut buf2 = pt.to_vec();
                let res2: Res<Vec<u8>> = if !inplace {
                    twin.seal_in_place(&mut buf2, aad).map(|tag| {
                        let mut v = buf2.clone();
                        v.extend_from_slice(&tag);
                        v
                    })
                } else {
                    twin.seal(pt, aad)
                };
                if res2 != res {
                    return Err(viol("twin.seal", format!("allocating seal == in-place ciphertext || tag: {}", res_s(&res)), res_s(&res2)));
                }
                if twin.seq_state() != real.seq_state() {
                    return Err(viol("twin.seal.state", format!("{:?}", real.seq_state()), format!("{:?}", twin.seq_state())));
                }
            }
        }
        Ok(())
    }

    pub fn ev_seal_many(&mut self, c: usize, n: u32, len: usize, inplace: bool, cov: &mut Cov) -> V {
        let mut pt = vec![0u8; len];
        for i in 0..n {
            if len >= 4 {
                pt[..4].copy_from_slice(&i.to_le_bytes());
            }
            let aad = [(i & 0xff) as u8];
            self.ev_seal(c, &pt, &aad[..(i as usize % 2)], inplace, cov)?;
        }
        Ok(())
    }

    pub fn ev_fail_next(&mut self, c: usize) -> V {
        if let Some(sc) = self.scs.get_mut(c).and_then(|x| x.as_mut()) {
            if sc.cfg.suite.shim && sc.real.is_some() && !sc.m_over {
                sc.fail_armed = true;
            }
        }
        Ok(())
    }

    // ------------------------------------------------------------------------------ deliver

    pub fn resolve_rec_pub(&self, r: usize, from: usize, rr: RecRef) -> Option<usize> {
        self.resolve_rec(r, from, rr)
    }

    /// `present` without per-call coverage bookkeeping (bulk use)
    pub fn present_quiet(&mut self, r: usize, bytes: &[u8], aad: &[u8], api: OpenApi, cov: &mut Cov) -> V {
        let mut scratch = Cov::new();
        let res = self.present(r, bytes, aad, None, api, "burst", &mut scratch);
        cov.ops += scratch.ops;
        res
    }

    fn resolve_rec(&self, r: usize, from: usize, rr: RecRef) -> Option<usize> {
        let rc = self.rcs.get(r)?.as_ref()?;
        let sc = self.scs.get(from)?.as_ref()?;
        if sc.recs.is_empty() {
            return None;
        }
        let want = match rr {
            RecRef::Index(i) => return Some(sc.recs[i % sc.recs.len()]),
            RecRef::Next => Some(rc.m_seq),
            RecRef::Back(k) => rc.m_seq.checked_sub(k),
            RecRef::Ahead(k) => rc.m_seq.checked_add(k),
        }?;
        // latest record sealed at that position
        sc.recs.iter().rev().map(|i| *i).find(|i| self.recs[*i].seq == want)
    }

    /// Applies a wire fault. Returns (body||tag, aad, fired)
    fn apply_fault(&self, from: usize, rec: &Rec, nt: usize, fault: &Fault) -> (Vec<u8>, Vec<u8>, bool) {
        let mut bytes = rec.ct.clone();
        let mut aad = rec.aad.clone();
        let body_len = bytes.len().saturating_sub(nt);
        let other = |i: usize| -> Option<&Rec> {
            let sc = self.scs.get(from)?.as_ref()?;
            if sc.recs.is_empty() {
                return None;
            }
            Some(&self.recs[sc.recs[i % sc.recs.len()]])
        };
        match fault {
            Fault::None => {}
            Fault::BitFlip(f, bit) => {
                let (start, len) = match f {
                    Field::Ct => (0, body_len),
                    Field::Tag => (body_len, bytes.len() - body_len),
                    Field::Aad => (0, aad.len()),
                };
                if len > 0 {
                    let b = bit % (len * 8);
                    if *f == Field::Aad {
                        aad[b / 8] ^= 1 << (b % 8);
                    } else {
                        bytes[start + b / 8] ^= 1 << (b % 8);
                    }
                }
            }
            Fault::Truncate(n) => {
                if !bytes.is_empty() {
                    bytes.truncate(n % bytes.len());
                }
            }
            Fault::Extend(b) => bytes.extend_from_slice(b),
            Fault::Insert(b) => {
                let tail = bytes.split_off(body_len);
                bytes.extend_from_slice(b);
                bytes.extend_from_slice(&tail);
            }
            Fault::SpliceTag(i) => {
                if let Some(o) = other(*i) {
                    if o.ct.len() >= nt {
                        bytes.truncate(body_len);
                        bytes.extend_from_slice(&o.ct[o.ct.len() - nt..]);
                    }
                }
            }
            Fault::SpliceAad(i) => {
                if let Some(o) = other(*i) {
                    aad = o.aad.clone();
                }
            }
            Fault::SwapCt(i) => {
                if let Some(o) = other(*i) {
                    if o.ct.len() >= nt {
                        let tag = bytes.split_off(body_len);
                        bytes = o.ct[..o.ct.len() - nt].to_vec();
                        bytes.extend_from_slice(&tag);
                    }
                }
            }
            Fault::WrongAad(b) => aad = b.0.clone(),
            Fault::Garbage(b) => bytes = b.0.clone(),
            Fault::TagExtend(b) => bytes.extend_from_slice(b),
            Fault::PlaintextAsBody(i, with_tag) => {
                if let Some(o) = other(*i) {
                    if o.ct.len() >= nt && bytes.len() >= nt {
                        let tag = if *with_tag { o.ct[o.ct.len() - nt..].to_vec() } else { bytes[body_len..].to_vec() };
                        bytes = o.pt.clone();
                        bytes.extend_from_slice(&tag);
                    }
                }
            }
            Fault::ByteSet(f, idx, val) => {
                let (start, len) = match f {
                    Field::Ct => (0, body_len),
                    Field::Tag => (body_len, bytes.len() - body_len),
                    Field::Aad => (0, aad.len()),
                };
                if len > 0 {
                    let i = if *idx >= 0 { (*idx as usize).min(len - 1) } else { len - ((-*idx) as usize).min(len) };
                    if *f == Field::Aad {
                        aad[i] = *val;
                    } else {
                        bytes[start + i] = *val;
                    }
                }
            }
        }
        let fired = bytes != rec.ct || aad != rec.aad;
        (bytes, aad, fired)
    }

    /// Ideal-channel prediction for presenting (bytes, aad) to a context of identity `ident` at
    /// position (seq, over)
    fn predict(&self, ident: usize, seq: u64, over: bool, bytes: &[u8], aad: &[u8]) -> Pred {
        if over {
            return Pred::Reject(E::MessageLimitReached);
        }
        for rec in self.recs.iter().rev() {
            if rec.ident == ident && rec.seq == seq && rec.ct == bytes && rec.aad == aad {
                return Pred::Accept(rec.pt.clone());
            }
        }
        Pred::Reject(E::OpenError)
    }

    fn fault_name(f: &Fault) -> &'static str {
        match f {
            Fault::None => "none",
            Fault::BitFlip(Field::Ct, _) => "bitflip_ct",
            Fault::BitFlip(Field::Tag, _) => "bitflip_tag",
            Fault::BitFlip(Field::Aad, _) => "bitflip_aad",
            Fault::Truncate(_) => "truncate",
            Fault::Extend(_) => "extend",
            Fault::Insert(_) => "insert",
            Fault::SpliceTag(_) => "splice_tag",
            Fault::SpliceAad(_) => "splice_aad",
            Fault::SwapCt(_) => "swap_ct",
            Fault::WrongAad(_) => "wrong_aad",
            Fault::Garbage(_) => "garbage",
            Fault::TagExtend(_) => "tag_extend",
            Fault::ByteSet(..) => "byte_set",
            Fault::PlaintextAsBody(..) => "plaintext_as_body",
        }
    }

    pub fn ev_deliver(&mut self, r: usize, from: usize, rr: RecRef, fault: &Fault, api: OpenApi, cov: &mut Cov) -> V {
        let ridx = match self.resolve_rec(r, from, rr) {
            Some(i) => i,
            None => {
                cov.hit("deliver.unresolved");
                return Ok(());
            }
        };
        let nt = nt_of(&self.rcs[r].as_ref().unwrap().cfg);
        let (bytes, aad, fired) = {
            let rec = &self.recs[ridx];
            self.apply_fault(from, rec, nt, fault)
        };
        let kind = match rr {
            RecRef::Next => "next",
            RecRef::Back(_) => "replay",
            RecRef::Ahead(_) => "future",
            RecRef::Index(_) => "indexed",
        };
        let cross = self.rcs[r].as_ref().unwrap().ident != self.recs[ridx].ident;
        if fired {
            cov.hit(&format!("fault.{}", Self::fault_name(fault)));
        }
        if cross {
            cov.hit("fault.cross_session");
        }
        match rr {
            RecRef::Back(_) => cov.hit("fault.replay"),
            RecRef::Ahead(_) => cov.hit("fault.future"),
            _ => {}
        }
        let label = format!("{}{}{}", kind, if fired { "+" } else { "" }, if fired { Self::fault_name(fault) } else { "" });
        if let Fault::TagExtend(x) = fault {
            // the body stays what it was; the *tag* handed to the detached interface is longer
            let rec_len = self.recs[ridx].ct.len();
            if rec_len >= nt && matches!(api, OpenApi::InPlace | OpenApi::SingleShotInPlace) {
                let body = bytes[..rec_len - nt].to_vec();
                let tag = bytes[rec_len - nt..].to_vec();
                let _ = x;
                return self.present(r, &body, &aad, Some(&tag), api, &label, cov);
            }
        }
        self.present(r, &bytes, &aad, None, api, &label, cov)
    }

    /// Presents bytes to receiver r through one of the opening interfaces and checks the outcome
    /// against the ideal channel.
    #[allow(clippy::too_many_arguments)]
    pub fn present(&mut self, r: usize, bytes: &[u8], aad: &[u8], split_tag: Option<&[u8]>, api: OpenApi, label: &str, cov: &mut Cov) -> V {
        let p = self.p;
        let ev_idx = self.ev_idx;
        let viol = |inv: &str, e: String, o: String| Violation { property: p.name().into(), invariant: inv.into(), at_event: ev_idx, expected: e, observed: o };
        let (ident, m_seq, m_over, nt, seals, has_real) = {
            let rc = match self.rcs.get(r).and_then(|x| x.as_ref()) {
                Some(x) => x,
                None => return Ok(()),
            };
            (rc.ident, rc.m_seq, rc.m_over, nt_of(&rc.cfg), rc.cfg.suite.aead.seals(), rc.real.is_some())
        };
        // (body, tag) for the detached interfaces
        let (body, tag): (Vec<u8>, Vec<u8>) = match split_tag {
            Some(t) => (bytes.to_vec(), t.to_vec()),
            None => {
                if bytes.len() >= nt {
                    (bytes[..bytes.len() - nt].to_vec(), bytes[bytes.len() - nt..].to_vec())
                } else {
                    (vec![], bytes.to_vec())
                }
            }
        };
        let whole: Vec<u8> = match split_tag {
            Some(t) => {
                let mut v = bytes.to_vec();
                v.extend_from_slice(t);
                v
            }
            None => bytes.to_vec(),
        };
        let single = matches!(api, OpenApi::SingleShot | OpenApi::SingleShotInPlace);
        let detached = matches!(api, OpenApi::InPlace | OpenApi::SingleShotInPlace);
        let (pseq, pover) = if single { (0, false) } else { (m_seq, m_over) };
        let pred = if detached && tag.len() != nt {
            // the tag is deserialised by the caller before the context is even involved
            Pred::BadTag(nt, tag.len())
        } else if !seals {
            if pover { Pred::Reject(E::MessageLimitReached) } else { Pred::Panics }
        } else {
            self.predict(ident, pseq, pover, &whole, aad)
        };

        // transient fault in the primitive: a valid message is refused this once (and nothing moves)
        let inject = {
            let rc = self.rcs[r].as_mut().unwrap();
            let on = rc.fail_open_armed && rc.cfg.suite.shim && !single && has_real;
            rc.fail_open_armed = false;
            on
        };
        let pred = if inject && matches!(pred, Pred::Accept(_)) { Pred::Reject(E::OpenError) } else { pred };
        // model-only receiver: refhpke opens (C02: an independent implementation accepts real traffic)
        if !has_real {
            let rc = self.rcs[r].as_mut().unwrap();
            if single || !seals || rc.m_over {
                return Ok(());
            }
            let refc = rc.refc.as_mut().unwrap();
            refc.seq = rc.m_seq as u128;
            let got = refc.open(aad, &whole);
            cov.hit("deliver.to_model_receiver");
            match (&pred, &got) {
                (Pred::Accept(pt), Some(g)) if pt == g => {
                    Self::model_advance(&mut rc.m_seq, &mut rc.m_over);
                    cov.hit("probe.refhpke_opened_real_ciphertext");
                }
                (Pred::Accept(pt), g) => {
                    return Err(viol("interop.ref-receiver-opens", format!("an RFC 9180 receiver opens the message to {}", short_hex(pt)), format!("{:?}", g.as_ref().map(|x| short_hex(x)))));
                }
                (_, Some(_)) => {
                    // the model accepted something the ideal channel would not: a model bug, not a finding
                    panic!("HARNESS: refhpke accepted an unpredicted record");
                }
                _ => {}
            }
            return Ok(());
        }

        // real receiver
        let rc = self.rcs[r].as_mut().unwrap();
        let su = suite(rc.cfg.suite);
        let before_state = rc.real.as_ref().unwrap().seq_state();
        let mut buf = body.clone();
        let ledger_before = if p == P::C16 && single { Some(ledger_all()) } else { None };
        let nonce_before = if p == P::C16 && !single { Some(hpke::verif::ledger(1)) } else { None };
        let hmask = std::cell::Cell::new(0u32);
        let hpats = if p == P::C16 { pats_of(rc.refc.as_ref()) } else { vec![] };
        let hon = p == P::C16;
        if inject {
            shim::arm_decrypt_failure();
            cov.hit("fault.aead_decrypt_failure_injected");
        }
        let res: Res<Vec<u8>> = match api {
            OpenApi::Alloc => hw(hon, &hpats, &hmask, || rc.real.as_mut().unwrap().open(&whole, aad)),
            OpenApi::InPlace => hw(hon, &hpats, &hmask, || rc.real.as_mut().unwrap().open_in_place(&mut buf, aad, &tag)).map(|_| buf.clone()),
            OpenApi::SingleShot => hw(hon, &hpats, &hmask, || su.ss_open(&rc.mode_r, &rc.sk_r, &rc.enc, &rc.cfg.info, &whole, aad)),
            OpenApi::SingleShotInPlace => hw(hon, &hpats, &hmask, || su.ss_open_in_place(&rc.mode_r, &rc.sk_r, &rc.enc, &rc.cfg.info, &mut buf, aad, &tag)),
        };
        if inject {
            shim::disarm_decrypt_failure();
        }
        if let Some(n) = heap_viol(hmask.get()) {
            return Err(viol(&format!("drop.{}-left-in-freed-heap-memory", n), format!("no heap block freed during open ({:?}) still holds the {}", api, n), "found in a block at the moment it was freed".into()));
        }
        cov.ops += 1;
        tx_res(&mut self.tx, &res);
        if detached && matches!(res, Err(Fail::Hpke(_))) && body.len() >= 8 && buf.len() == body.len() && matches!(p, P::C06 | P::C05 | P::C14) {
            // "never returns plaintext": after a rejected in-place open the caller's buffer must not
            // hold the decryption of what was presented. The keystream at this position is known from
            // any record sealed at it under the same key (all three AEADs are stream ciphers).
            let nt_ = nt;
            for rec in self.recs.iter().rev() {
                if rec.ident == ident && rec.seq == pseq && rec.ct.len() >= nt_ {
                    let n = (rec.ct.len() - nt_).min(body.len()).min(rec.pt.len());
                    if n >= 8 {
                        let would: Vec<u8> = (0..n).map(|i| body[i] ^ rec.ct[i] ^ rec.pt[i]).collect();
                        cov.hit("probe.rejected_inplace_buffer_inspected");
                        if buf[..n] == would[..] {
                            return Err(viol(
                                "open.rejected-but-plaintext-left-in-buffer",
                                format!("after {} the caller's buffer does not hold the decryption of the rejected input", res_s(&res)),
                                format!("buffer = {} = presented bytes XOR keystream of position {}", short_hex(&buf), pseq),
                            ));
                        }
                    }
                    break;
                }
            }
        }
        if let Some(before) = ledger_before {
            // a single-shot open builds and drops a whole receiver context inside the call: whatever
            // the outcome, its secrets must have been dropped and wiped when the call returns
            let after = ledger_all();
            let setup_ok = !matches!(res, Err(Fail::Hpke(E::DecapError)) | Err(Fail::Decode(..)) | Err(Fail::Panic(_)));
            for k in 0..4 {
                if after[k].1 != before[k].1 {
                    return Err(viol("drop.ledger-dirty", format!("single-shot open: every dropped {} buffer is all-zero", LEDGER_NAMES[k]), "non-zero bytes left".into()));
                }
            }
            if setup_ok && seals {
                for k in [1usize, 2] {
                    if after[k].0 - before[k].0 < 1 {
                        return Err(viol("drop.not-run", format!("single-shot open ({}): the temporary receiver context's {} is dropped and wiped before the call returns", out_class_s(&res), LEDGER_NAMES[k]), "no drop recorded".into()));
                    }
                }
            }
        }
        let mut nonce_rule: Option<(u64, u64)> = None;
        if let Some((d0, z0)) = nonce_before {
            // per-message nonce temporaries: a rejected open must wipe as many of them as a
            // successful one does (relative rule: no assumption about how many there are)
            let (d1, z1) = hpke::verif::ledger(1);
            if z1 != z0 {
                return Err(viol("drop.ledger-dirty", "every dropped AeadNonce buffer is all-zero".into(), "non-zero bytes left".into()));
            }
            let slot = if detached { 1 } else { 0 };
            let delta = d1 - d0;
            match &res {
                Ok(_) => {
                    let cur = self.nonce_drops_ok[slot];
                    self.nonce_drops_ok[slot] = Some(cur.map(|c| c.min(delta)).unwrap_or(delta));
                }
                Err(Fail::Hpke(E::OpenError)) if whole.len() >= nt && tag.len() == nt => {
                    if let Some(okd) = self.nonce_drops_ok[slot] {
                        nonce_rule = Some((okd, delta));
                    }
                }
                _ => {}
            }
        }
        if let Some((okd, delta)) = nonce_rule {
            if delta < okd {
                return Err(viol("drop.per-message-nonce-not-wiped-on-rejected-open", format!("{} AeadNonce buffers wiped, as on a successful open through the same interface", okd), format!("{}", delta)));
            }
        }
        let pc = pos_class(pseq, pover);
        let oc = out_class_s(&res);
        cov.hit(&format!("deliver.{}.{}.{:?}.{:?}.{}", pc, label, api, rc.cfg.suite.aead, oc));
        cov.sig_event("Deliver", &format!("{}{}{:?}{}", pc, label, api, oc));
        cov.pos(pseq);
        if whole.len() < nt {
            cov.hit("probe.open_shorter_than_tag");
        }

        let strict_kind = matches!(p, P::C05 | P::C06 | P::C13 | P::C14 | P::C01);
        // Attribution: whether a valid message is *accepted* is the business of the round-trip,
        // interoperability, sequencing and equivalence properties; whether an invalid one is
        // *rejected* is the business of the sequencing, integrity, binding and authentication
        // properties. The other profiles note a disagreement with the ideal channel, resynchronise
        // the model with the context (hook) and go on, so that a break of one property does not
        // raise an alarm under a property that still holds. (C18 keeps both: inside its worlds the
        // ideal channel is the only witness of state that leaks between operations of one process.)
        let strict_accept = matches!(p, P::C01 | P::C02 | P::C04 | P::C05 | P::C14 | P::C18);
        let strict_reject = matches!(p, P::C01 | P::C02 | P::C05 | P::C06 | P::C07 | P::C08 | P::C14 | P::C18);
        match (&pred, &res) {
            (Pred::Panics, Err(Fail::Panic(_))) => {
                cov.hit("probe.export_only_open_panics");
            }
            (Pred::Panics, other) => return Err(viol("export-only.open-must-panic", "panic".into(), res_s(other))),
            (_, Err(Fail::Panic(m))) => return Err(viol("open.no-panic", format!("{:?}", pred), format!("panic: {}", m))),
            (Pred::Accept(pt), Ok(got)) => {
                if got != pt && strict_accept {
                    return Err(viol("open.plaintext", format!("plaintext {}", short_hex(pt)), short_hex(got)));
                }
                if !single {
                    if rc.m_seq == u64::MAX {
                        cov.hit("probe.accepted_at_2^64-1");
                    }
                    Self::model_advance(&mut rc.m_seq, &mut rc.m_over);
                }
            }
            (Pred::Accept(pt), Err(f)) => {
                if strict_accept {
                    return Err(viol("open.rejected-valid", format!("Ok({}) at position {}", short_hex(pt), pseq), format!("Err({})", short(f))));
                }
                cov.hit("attribution.valid_message_rejected_not_this_property");
            }
            (Pred::Reject(_), Ok(got)) | (Pred::BadTag(..), Ok(got)) => {
                if strict_reject {
                    return Err(viol("open.accepted-invalid", format!("{:?} for delivery '{}' at position {}", pred, label, pseq), format!("Ok({})", short_hex(got))));
                }
                cov.hit("attribution.invalid_message_accepted_not_this_property");
                if !single {
                    // follow the context
                    let st = rc.real.as_ref().unwrap().seq_state();
                    rc.m_seq = st.0;
                    rc.m_over = st.1;
                }
            }
            (Pred::Reject(e), Err(f)) => {
                let ok = match f {
                    Fail::Hpke(g) => g == e,
                    _ => false,
                };
                if !ok && strict_kind {
                    return Err(viol("open.error-kind", format!("Err({:?})", e), format!("Err({})", short(f))));
                }
                if *e == E::MessageLimitReached && detached && buf != body {
                    return Err(viol("open.limit-buffer-untouched", short_hex(&body), short_hex(&buf)));
                }
                if *e == E::MessageLimitReached {
                    cov.hit("probe.open_after_exhaustion");
                }
            }
            (Pred::BadTag(want, got), Err(f)) => {
                let ok = *f == Fail::Decode("tag".into(), E::IncorrectInputLength(*want, *got));
                if !ok && strict_kind {
                    return Err(viol("open.bad-tag-length", format!("IncorrectInputLength({}, {})", want, got), short(f)));
                }
                cov.hit("probe.detached_tag_wrong_length");
            }
        }
        // position law via hook (C05): +1 on success, unchanged on any failure
        if !single && matches!(p, P::C05 | P::C14) {
            let st = rc.real.as_ref().unwrap().seq_state();
            if st != (rc.m_seq, rc.m_over) {
                return Err(viol("open.position-law", format!("(seq, overflowed) = ({}, {}) after {:?} (was {:?})", rc.m_seq, rc.m_over, pred, before_state), format!("{:?}", st)));
            }
        }
        // C14: twin receiver goes through the other interface form
        if p == P::C14 && !single && seals {
            if let Some(twin) = rc.twin.as_mut() {
                let mut buf2 = body.clone();
                let res2: Res<Vec<u8>> = if detached { twin.open(&whole, aad) } else { twin.open_in_place(&mut buf2, aad, &tag).map(|_| buf2.clone()) };
                let same = match (&res, &res2) {
                    (Ok(a), Ok(b)) => a == b,
                    (Err(Fail::Hpke(a)), Err(Fail::Hpke(b))) => a == b,
                    // a tag of the wrong size cannot even be expressed through the detached form
                    (Err(_), Err(Fail::Decode(..))) | (Err(Fail::Decode(..)), Err(_)) => true,
                    _ => false,
                };
                if !same {
                    return Err(viol("twin.open", format!("allocating and in-place open agree: {}", res_s(&res)), res_s(&res2)));
                }
                if twin.seq_state() != rc.real.as_ref().unwrap().seq_state() {
                    return Err(viol("twin.open.state", format!("{:?}", rc.real.as_ref().unwrap().seq_state()), format!("{:?}", twin.seq_state())));
                }
            }
        }
        Ok(())
    }

    pub fn ev_pump(&mut self, r: usize, from: usize, n: u32, len: usize, inplace_s: bool, inplace_r: bool, cov: &mut Cov) -> V {
        let mut pt = vec![0x5Au8; len];
        for i in 0..n {
            if len >= 4 {
                pt[..4].copy_from_slice(&i.to_le_bytes());
            }
            self.ev_seal(from, &pt, b"pump", inplace_s, cov)?;
            self.ev_deliver(r, from, RecRef::Next, &Fault::None, if inplace_r { OpenApi::InPlace } else { OpenApi::Alloc }, cov)?;
        }
        Ok(())
    }

    pub fn ev_raw_open(&mut self, r: usize, ct: &[u8], aad: &[u8], tag: Option<&[u8]>, cov: &mut Cov) -> V {
        let api = if tag.is_some() { OpenApi::InPlace } else { OpenApi::Alloc };
        cov.hit("fault.garbage");
        self.present(r, ct, aad, tag, api, "raw", cov)
    }

    // ------------------------------------------------------------------------------ tamper sweep (C06)

    pub fn ev_tamper_sweep(&mut self, r: usize, from: usize, rec_i: usize, api: OpenApi, max_bits: usize, only: Option<usize>, cov: &mut Cov) -> V {
        let (ridx, nt) = {
            let rc = match self.rcs.get(r).and_then(|x| x.as_ref()) {
                Some(x) => x,
                None => return Ok(()),
            };
            let sc = match self.scs.get(from).and_then(|x| x.as_ref()) {
                Some(x) => x,
                None => return Ok(()),
            };
            if sc.recs.is_empty() || rc.real.is_none() || rc.m_over || !rc.cfg.suite.aead.seals() {
                return Ok(());
            }
            let ridx = sc.recs[rec_i % sc.recs.len()];
            if self.recs[ridx].ident != rc.ident {
                return Ok(());
            }
            (ridx, nt_of(&rc.cfg))
        };
        let single = matches!(api, OpenApi::SingleShot | OpenApi::SingleShotInPlace);
        let (seq, ct, aad) = {
            let rec = &self.recs[ridx];
            (rec.seq, rec.ct.clone(), rec.aad.clone())
        };
        if single && seq != 0 {
            return Ok(());
        }
        // variant list
        let body_len = ct.len() - nt.min(ct.len());
        let mut variants: Vec<Fault> = Vec::new();
        let total_bits = 8 * (ct.len() + aad.len());
        let stride = if total_bits > max_bits && max_bits > 0 { (total_bits + max_bits - 1) / max_bits } else { 1 };
        for b in (0..8 * body_len).step_by(stride) {
            variants.push(Fault::BitFlip(Field::Ct, b));
        }
        for b in 0..8 * (ct.len() - body_len) {
            variants.push(Fault::BitFlip(Field::Tag, b));
        }
        for b in (0..8 * aad.len()).step_by(stride) {
            variants.push(Fault::BitFlip(Field::Aad, b));
        }
        let tstride = if ct.len() > 600 { ct.len() / 300 } else { 1 };
        for n in (0..ct.len()).step_by(tstride) {
            variants.push(Fault::Truncate(n));
        }
        for n in ct.len().saturating_sub(nt + 2)..ct.len() {
            variants.push(Fault::Truncate(n));
        }
        for n in 1..=17usize {
            variants.push(Fault::Extend(vec![0u8; n].into()));
        }
        variants.push(Fault::Extend(vec![0xA5u8; 16].into()));
        variants.push(Fault::Extend(ct[body_len..].to_vec().into()));
        for n in [1usize, 2, 16] {
            variants.push(Fault::TagExtend(vec![0u8; n].into()));
        }
        // value-dependent branches: special byte values at the ends of every field
        for f in [Field::Ct, Field::Tag, Field::Aad] {
            for idx in [0i32, 1, -1, -2] {
                for val in [0x00u8, 0x01, 0x7f, 0x80, 0xff] {
                    variants.push(Fault::ByteSet(f, idx, val));
                }
            }
        }
        variants.push(Fault::TagExtend(ct[body_len..].to_vec().into()));
        variants.push(Fault::Insert(vec![0u8; 1].into()));
        variants.push(Fault::Insert(vec![0u8; 16].into()));
        variants.push(Fault::WrongAad(vec![].into()));
        {
            let mut a = aad.clone();
            a.push(0);
            variants.push(Fault::WrongAad(a.into()));
            if !aad.is_empty() {
                variants.push(Fault::WrongAad(aad[..aad.len() - 1].to_vec().into()));
                variants.push(Fault::WrongAad(aad[1..].to_vec().into()));
            }
            variants.push(Fault::WrongAad(ct.clone().into()));
        }
        let nrecs = self.scs[from].as_ref().unwrap().recs.len().min(8);
        for i in 0..nrecs {
            variants.push(Fault::SpliceTag(i));
            variants.push(Fault::SpliceAad(i));
            variants.push(Fault::SwapCt(i));
            variants.push(Fault::PlaintextAsBody(i, true));
            variants.push(Fault::PlaintextAsBody(i, false));
        }
        let p = self.p;
        for (vi, fault) in variants.iter().enumerate() {
            if let Some(o) = only {
                if o != vi {
                    continue;
                }
            }
            let (bytes, vaad, fired) = {
                let rec = &self.recs[ridx];
                self.apply_fault(from, rec, nt, fault)
            };
            if !fired {
                continue;
            }
            // re-pin the receiver on the position that would accept the untampered record
            if !single {
                let rc = self.rcs[r].as_mut().unwrap();
                rc.real.as_mut().unwrap().set_seq(seq);
                rc.m_seq = seq;
                if let Some(t) = rc.twin.as_mut() {
                    t.set_seq(seq);
                }
            }
            cov.hit(&format!("fault.{}", Self::fault_name(fault)));
            cov.hit("tamper.variants");
            let before = self.ev_idx;
            let rr = if matches!(fault, Fault::TagExtend(_)) && ct.len() >= nt && matches!(api, OpenApi::InPlace | OpenApi::SingleShotInPlace) {
                let body = bytes[..ct.len() - nt].to_vec();
                let tag = bytes[ct.len() - nt..].to_vec();
                self.present(r, &body, &vaad, Some(&tag), api, Self::fault_name(fault), cov)
            } else {
                self.present(r, &bytes, &vaad, None, api, Self::fault_name(fault), cov)
            };
            if let Err(mut v) = rr {
                v.invariant = format!("tamper[{}:{:?}].{}", vi, fault_brief(fault), v.invariant);
                v.at_event = before;
                return Err(v);
            }
            let _ = p;
        }
        // leave the receiver pinned on the record's position
        if !single {
            let rc = self.rcs[r].as_mut().unwrap();
            rc.real.as_mut().unwrap().set_seq(seq);
            rc.m_seq = seq;
            if let Some(t) = rc.twin.as_mut() {
                t.set_seq(seq);
            }
        }
        Ok(())
    }

    /// Volume: large messages sealed and opened in place, nothing recorded
    pub fn ev_volume_pump(&mut self, c: usize, n: u32, len: usize, cov: &mut Cov) -> V {
        let ok = {
            let sc = self.scs.get(c).and_then(|x| x.as_ref());
            let rc = self.rcs.get(c).and_then(|x| x.as_ref());
            match (sc, rc) {
                (Some(s), Some(r)) => s.real.is_some() && r.real.is_some() && s.ident == r.ident && s.m_seq == r.m_seq && !s.m_over && !r.m_over && s.cfg.suite.aead.seals() && !s.cfg.suite.shim,
                _ => false,
            }
        };
        if !ok {
            return Ok(());
        }
        let mut buf = vec![0x5Au8; len];
        for i in 0..n {
            if len >= 8 {
                buf[..8].copy_from_slice(&(i as u64).to_le_bytes());
            }
            let first = buf[..len.min(16)].to_vec();
            let tag = {
                let sc = self.scs[c].as_mut().unwrap();
                let r = sc.real.as_mut().unwrap().seal_in_place(&mut buf, b"volume");
                match r {
                    Ok(t) => {
                        Self::model_advance(&mut sc.m_seq, &mut sc.m_over);
                        t
                    }
                    Err(f) => return Err(self.viol("volume.seal", format!("Ok: message #{} of {} bytes ({} bytes sealed so far on this context)", i, len, i as u64 * len as u64), format!("Err({})", short(&f)))),
                }
            };
            let rc = self.rcs[c].as_mut().unwrap();
            match rc.real.as_mut().unwrap().open_in_place(&mut buf, b"volume", &tag) {
                Ok(()) => Self::model_advance(&mut rc.m_seq, &mut rc.m_over),
                Err(f) => return Err(self.viol("volume.open", format!("Ok: message #{} of {} bytes opens", i, len), format!("Err({})", short(&f)))),
            }
            if buf[..len.min(16)] != first[..] {
                return Err(self.viol("volume.plaintext", "the plaintext that was sealed".into(), "different bytes".into()));
            }
            // one message = one position, whatever its size
            let (ms, mo) = { let sc = self.scs[c].as_ref().unwrap(); (sc.m_seq, sc.m_over) };
            let got_s = self.scs[c].as_ref().unwrap().real.as_ref().unwrap().seq_state();
            let got_r = self.rcs[c].as_ref().unwrap().real.as_ref().unwrap().seq_state();
            if got_s != (ms, mo) || got_r != (ms, mo) {
                return Err(self.viol("volume.counter-law", format!("sender and receiver at position {:?} after message #{} of {} bytes", (ms, mo), i, len), format!("sender {:?}, receiver {:?}", got_s, got_r)));
            }
            cov.ops += 2;
        }
        cov.hit("probe.volume_beyond_2^32_bytes");
        cov.sig_event("VolumePump", &format!("{}x{}", n, len));
        Ok(())
    }

    /// Soak: n rejected deliveries in a row (bugs that count failures in a narrow integer)
    pub fn ev_reject_burst(&mut self, r: usize, from: usize, n: u32, cov: &mut Cov) -> V {
        let (base, aad, nt) = {
            let rc = match self.rcs.get(r).and_then(|x| x.as_ref()) {
                Some(x) => x,
                None => return Ok(()),
            };
            if rc.real.is_none() || rc.m_over || !rc.cfg.suite.aead.seals() {
                return Ok(());
            }
            let nt = super::world_ops::nt_pub(&rc.cfg);
            match self.resolve_rec_pub(r, from, RecRef::Next) {
                Some(i) => (self.recs[i].ct.clone(), self.recs[i].aad.clone(), nt),
                None => (vec![0u8; 40], vec![], nt),
            }
        };
        let _ = nt;
        for i in 0..n {
            let mut bytes = base.clone();
            if bytes.is_empty() {
                bytes.push(0);
            }
            // a different single-byte corruption each time
            let pos = (i as usize) % bytes.len();
            bytes[pos] ^= 1 + ((i / bytes.len() as u32) % 255) as u8;
            let api = if i % 2 == 0 { OpenApi::Alloc } else { OpenApi::InPlace };
            if bytes == base {
                continue;
            }
            if i % 4096 == 0 {
                cov.hit("fault.reject_burst_4096");
            }
            self.present_quiet(r, &bytes, &aad, api, cov)?;
        }
        cov.sig_event("RejectBurst", &format!("{}", n));
        Ok(())
    }

    /// Content-dependent adversary (sees the ciphertexts): strips trailing zero bytes
    pub fn ev_strip_zeros(&mut self, r: usize, from: usize, cov: &mut Cov) -> V {
        let cands: Vec<(u64, Vec<u8>, Vec<u8>)> = {
            let rc = match self.rcs.get(r).and_then(|x| x.as_ref()) {
                Some(x) => x,
                None => return Ok(()),
            };
            let sc = match self.scs.get(from).and_then(|x| x.as_ref()) {
                Some(x) => x,
                None => return Ok(()),
            };
            if rc.real.is_none() || rc.m_over || !rc.cfg.suite.aead.seals() {
                return Ok(());
            }
            sc.recs
                .iter()
                .map(|i| &self.recs[*i])
                .filter(|rec| rec.ident == rc.ident && rec.ct.last() == Some(&0))
                .map(|rec| {
                    let keep = rec.ct.iter().rposition(|b| *b != 0).map(|p| p + 1).unwrap_or(0);
                    (rec.seq, rec.ct[..keep].to_vec(), rec.aad.clone())
                })
                .collect()
        };
        for (seq, bytes, aad) in cands {
            for api in [OpenApi::Alloc, OpenApi::InPlace] {
                {
                    let rc = self.rcs[r].as_mut().unwrap();
                    rc.real.as_mut().unwrap().set_seq(seq);
                    rc.m_seq = seq;
                    if let Some(t) = rc.twin.as_mut() {
                        t.set_seq(seq);
                    }
                }
                cov.hit("fault.strip_trailing_zeros");
                self.present(r, &bytes, &aad, None, api, "strip_zeros", cov)?;
            }
        }
        Ok(())
    }

    // ------------------------------------------------------------------------------ export

    pub fn ev_export(&mut self, c: usize, role: Role, ectx: &[u8], len: usize, cov: &mut Cov) -> V {
        let p = self.p;
        let ev_idx = self.ev_idx;
        let viol = |inv: &str, e: String, o: String| Violation { property: p.name().into(), invariant: inv.into(), at_event: ev_idx, expected: e, observed: o };
        let hmask = std::cell::Cell::new(0u32);
        let (res, refc, nh, cache, hist): (Res<Vec<u8>>, Option<&refhpke::RefCtx>, usize, &mut std::collections::HashMap<(Vec<u8>, usize), Result<Vec<u8>, Fail>>, &'static str) = match role {
            Role::S => {
                let sc = match self.scs.get_mut(c).and_then(|x| x.as_mut()) {
                    Some(x) => x,
                    None => return Ok(()),
                };
                let real = match sc.real.as_ref() {
                    Some(r) => r,
                    None => return Ok(()),
                };
                let hist = if sc.m_over { "overflowed" } else if sc.m_seq == 0 { "fresh" } else { "used" };
                (hw(p == P::C16, &pats_of(sc.refc.as_ref()), &hmask, || real.export(ectx, len)), sc.refc.as_ref(), sc.cfg.suite.kdf.nh(), &mut sc.exports, hist)
            }
            Role::R => {
                let rc = match self.rcs.get_mut(c).and_then(|x| x.as_mut()) {
                    Some(x) => x,
                    None => return Ok(()),
                };
                let real = match rc.real.as_ref() {
                    Some(r) => r,
                    None => return Ok(()),
                };
                let hist = if rc.m_over { "overflowed" } else if rc.m_seq == 0 { "fresh" } else { "used" };
                (hw(p == P::C16, &pats_of(rc.refc.as_ref()), &hmask, || real.export(ectx, len)), rc.refc.as_ref(), rc.cfg.suite.kdf.nh(), &mut rc.exports, hist)
            }
        };
        cov.ops += 1;
        tx_res(&mut self.tx, &res);
        if let Some(n) = heap_viol(hmask.get()) {
            return Err(viol(&format!("drop.{}-left-in-freed-heap-memory", n), format!("no heap block freed during export still holds the {}", n), "found in a block at the moment it was freed".into()));
        }
        let lclass = if len == 0 {
            "0"
        } else if len == 255 * nh {
            "255Nh"
        } else if len == 255 * nh + 1 {
            "255Nh+1"
        } else if len > 65535 {
            ">65535"
        } else if len > 255 * nh {
            ">255Nh"
        } else if len <= nh {
            "<=Nh"
        } else {
            "mid"
        };
        cov.hit(&format!("export.{:?}.{}.{}.Nh{}.{}", role, hist, lclass, nh, out_class_s(&res)));
        cov.sig_event("Export", &format!("{:?}{}{}{}", role, hist, lclass, out_class_s(&res)));
        if len == 255 * nh {
            cov.hit("probe.export_at_255Nh");
        }
        if let Err(Fail::Panic(m)) = &res {
            return Err(viol("export.no-panic", "a value or KdfOutputTooLong".into(), format!("panic: {}", m)));
        }
        // purity / repeatability: the same arguments always give the same result on this context
        let key = (ectx.to_vec(), len);
        if len <= 4096 {
            if let Some(prev) = cache.get(&key) {
                if *prev != res {
                    return Err(viol("export.repeatable", res_s(prev), res_s(&res)));
                }
                cov.hit("probe.export_repeated");
            } else if cache.len() < 64 {
                cache.insert(key, res.clone());
            }
        }
        if matches!(p, P::C11 | P::C02 | P::C15) {
            let too_long = len > 255 * nh;
            match (&res, too_long) {
                (Err(Fail::Hpke(E::KdfOutputTooLong)), true) => {}
                (other, true) => return Err(viol("export.length-limit", format!("Err(KdfOutputTooLong) for L={} > 255*Nh={}", len, 255 * nh), res_s(other))),
                (Err(f), false) => return Err(viol("export.length-limit", format!("Ok for L={} <= 255*Nh={}", len, 255 * nh), format!("Err({})", short(f)))),
                (Ok(v), false) => {
                    if v.len() != len {
                        return Err(viol("export.length", format!("{}", len), format!("{}", v.len())));
                    }
                    if let Some(rc) = refc {
                        let want = rc.export(ectx, len).expect("model export");
                        if want != *v {
                            return Err(viol("export.rfc-bytes", format!("LabeledExpand(exporter_secret, \"sec\", ctx, {}) = {}", len, short_hex(&want)), short_hex(v)));
                        }
                        cov.hit("export.compared_with_refhpke");
                    }
                }
            }
        }
        Ok(())
    }

    pub fn ev_export_cmp(&mut self, s: usize, r: usize, ectx: &[u8], len: usize, cov: &mut Cov) -> V {
        let (a, ia) = match self.scs.get(s).and_then(|x| x.as_ref()) {
            Some(sc) if sc.real.is_some() => (sc.real.as_ref().unwrap().export(ectx, len), sc.ident),
            _ => return Ok(()),
        };
        let (b, ib) = match self.rcs.get(r).and_then(|x| x.as_ref()) {
            Some(rc) if rc.real.is_some() => (rc.real.as_ref().unwrap().export(ectx, len), rc.ident),
            _ => return Ok(()),
        };
        cov.ops += 2;
        let (a, b) = match (a, b) {
            (Ok(a), Ok(b)) => (a, b),
            _ => return Ok(()),
        };
        if ia == ib {
            cov.hit("export_cmp.same_identity");
            if a != b {
                return Err(self.viol("export.symmetric", format!("sender and receiver export the same secret: {}", short_hex(&a)), short_hex(&b)));
            }
        } else if len >= 16 {
            cov.hit("export_cmp.different_identity");
            if a == b {
                return Err(self.viol("export.must-differ", "contexts that disagree in a parameter export different secrets".into(), format!("both {}", short_hex(&a))));
            }
        }
        Ok(())
    }

    // ------------------------------------------------------------------------------ jump

    pub fn ev_jump(&mut self, c: usize, role: Role, to: u64, cov: &mut Cov) -> V {
        match role {
            Role::S => {
                if let Some(sc) = self.scs.get_mut(c).and_then(|x| x.as_mut()) {
                    // forward only: a backward jump would legitimately repeat a nonce
                    if sc.m_over || to < sc.m_seq {
                        return Ok(());
                    }
                    if let Some(real) = sc.real.as_mut() {
                        real.set_seq(to);
                    }
                    if let Some(t) = sc.twin.as_mut() {
                        t.set_seq(to);
                    }
                    sc.m_seq = to;
                    cov.hit("fault.seq_jump_sender");
                    cov.sig_event("Jump", pos_class(to, false));
                }
            }
            Role::R => {
                if let Some(rc) = self.rcs.get_mut(c).and_then(|x| x.as_mut()) {
                    if rc.m_over {
                        return Ok(());
                    }
                    if let Some(real) = rc.real.as_mut() {
                        real.set_seq(to);
                    }
                    if let Some(t) = rc.twin.as_mut() {
                        t.set_seq(to);
                    }
                    rc.m_seq = to;
                    cov.hit("fault.seq_jump_receiver");
                    cov.sig_event("Jump", pos_class(to, false));
                }
            }
        }
        Ok(())
    }

    // ------------------------------------------------------------------------------ teardown (C16)

    pub fn ev_teardown(&mut self, c: usize, role: Role, cov: &mut Cov) -> V {
        let p = self.p;
        #[allow(unused_assignments)]
        let mut scan0: Option<Vec<Vec<usize>>> = None;
        let (scan, refc, hist) = match role {
            Role::S => {
                let sc = match self.scs.get_mut(c).and_then(|x| x.take()) {
                    Some(x) => x,
                    None => return Ok(()),
                };
                let hist = if sc.m_over { "overflowed" } else if sc.m_seq == 0 { "fresh" } else { "used" };
                let real = match sc.real {
                    Some(r) => r,
                    None => return Ok(()),
                };
                let pats = pats_of(sc.refc.as_ref());
                let before = ledger_all();
                let scan = real.teardown_scan(&pats);
                if p == P::C16 {
                    self.check_teardown_ledger(&before, "sender context")?;
                }
                scan0 = sc.scan0;
                (scan, sc.refc, hist)
            }
            Role::R => {
                let rc = match self.rcs.get_mut(c).and_then(|x| x.take()) {
                    Some(x) => x,
                    None => return Ok(()),
                };
                let hist = if rc.m_over { "overflowed" } else if rc.m_seq == 0 { "fresh" } else { "used" };
                let real = match rc.real {
                    Some(r) => r,
                    None => return Ok(()),
                };
                let pats = pats_of(rc.refc.as_ref());
                let before = ledger_all();
                let scan = real.teardown_scan(&pats);
                if p == P::C16 {
                    self.check_teardown_ledger(&before, "receiver context")?;
                }
                scan0 = rc.scan0;
                (scan, rc.refc, hist)
            }
        };
        cov.ops += 1;
        cov.hit(&format!("teardown.{:?}.{}", role, hist));
        cov.sig_event("Teardown", hist);
        if p != P::C16 {
            return Ok(());
        }
        let scan = match scan {
            Ok(s) => s,
            Err(f) => return Err(self.viol("drop.no-panic", "drop completes".into(), short(&f))),
        };
        if refc.is_none() {
            return Ok(());
        }
        let names = PAT_NAMES;
        cov.hit_n("teardown.heap_blocks_inspected", scan.heap_blocks);
        if let Some(n) = heap_viol(scan.heap_hits) {
            return Err(self.viol(&format!("drop.{}-left-in-freed-heap-memory", n), format!("no heap block freed by dropping the {:?} context still holds the {}", role, n), "found in a block at the moment it was freed".into()));
        }
        for i in 0..4 {
            if !scan.observed(i) {
                cov.hit(&format!("teardown.unobservable.{}", names[i]));
                continue;
            }
            cov.hit(&format!("teardown.observed.{}", names[i]));
            if !scan.survived(i) && scan.before[i].iter().any(|o| scan.after[i].contains(o)) {
                cov.hit(&format!("probe.teardown_partial_survivor.{}", names[i]));
            }
            // a place that did not hold the secret right after setup, holds it now and still holds it
            // after the drop: a copy the library made while the context was in use and never wiped
            // (places present since construction may be stale bytes in padding, see 9.2; these cannot)
            if let Some(s0) = scan0.as_ref() {
                if let Some(o) = scan.before[i].iter().find(|o| scan.after[i].contains(o) && !s0[i].contains(o)) {
                    return Err(self.viol(&format!("drop.{}-copy-made-during-use-still-in-memory", names[i]), format!("no copy of the {} that appeared in the {:?} context after setup outlives the drop", names[i], role), format!("still present at offset {} of the {}-byte context", o, scan.size)));
                }
            }
            if scan.survived(i) {
                return Err(self.viol(&format!("drop.{}-still-in-memory", names[i]), format!("{} no longer present in the {}-byte slot of the dropped {:?} context", names[i], scan.size, role), "still present after drop".into()));
            }
        }
        Ok(())
    }

    pub fn ev_teardown_unwinding(&mut self, c: usize, role: Role, cov: &mut Cov) -> V {
        let before = ledger_all();
        match role {
            Role::S => match self.scs.get_mut(c).and_then(|x| x.take()).and_then(|s| s.real) {
                Some(real) => real.drop_unwinding(),
                None => return Ok(()),
            },
            Role::R => match self.rcs.get_mut(c).and_then(|x| x.take()).and_then(|s| s.real) {
                Some(real) => real.drop_unwinding(),
                None => return Ok(()),
            },
        }
        cov.ops += 1;
        cov.hit("fault.drop_during_unwind");
        cov.sig_event("TeardownUnwinding", &format!("{:?}", role));
        if self.p == P::C16 {
            self.check_teardown_ledger(&before, "context while its thread unwinds from a panic")?;
        }
        Ok(())
    }

    fn check_teardown_ledger(&self, before: &[(u64, u64); 4], what: &str) -> V {
        let after = ledger_all();
        for k in 0..4 {
            if after[k].1 != before[k].1 {
                return Err(self.viol("drop.ledger-dirty", format!("dropping a {}: every {} buffer is all-zero afterwards", what, LEDGER_NAMES[k]), "non-zero bytes left".into()));
            }
        }
        for k in [1usize, 2] {
            if after[k].0 - before[k].0 < 1 {
                return Err(self.viol("drop.not-run", format!("dropping a {} wipes its {}", what, LEDGER_NAMES[k]), "no drop recorded".into()));
            }
        }
        Ok(())
    }
}

/// Runs `f` with the heap watch armed for `pats` (C16 only): every heap block freed inside is
/// inspected; the bit mask of patterns found is OR-ed into `mask`.
pub fn hw<T>(on: bool, pats: &[Vec<u8>], mask: &std::cell::Cell<u32>, f: impl FnOnce() -> T) -> T {
    if !on {
        return f();
    }
    crate::heapscan::arm(pats);
    let r = f();
    let (m, _) = crate::heapscan::disarm();
    mask.set(mask.get() | m);
    r
}
pub const PAT_NAMES: [&str; 4] = ["base_nonce", "exporter_secret", "exporter_secret-as-hmac-ipad-key", "exporter_secret-as-hmac-opad-key"];
pub fn heap_viol(mask: u32) -> Option<&'static str> {
    (0..4).find(|i| mask & (1 << i) != 0).map(|i| PAT_NAMES[i])
}

pub fn pats_of_pub(refc: Option<&refhpke::RefCtx>) -> Vec<Vec<u8>> {
    pats_of(refc)
}

fn pats_of(refc: Option<&refhpke::RefCtx>) -> Vec<Vec<u8>> {
    match refc {
        // base nonce, exporter secret, and the exporter secret as HMAC would store it as a key
        // (xor ipad / xor opad) in case a keyed MAC/KDF object is cached inside the context
        Some(r) => vec![
            r.base_nonce.clone(),
            r.exporter_secret.clone(),
            r.exporter_secret.iter().map(|b| b ^ 0x36).collect(),
            r.exporter_secret.iter().map(|b| b ^ 0x5c).collect(),
        ],
        None => vec![vec![], vec![], vec![], vec![]],
    }
}

fn fault_brief(f: &Fault) -> String {
    match f {
        Fault::Extend(b) => format!("Extend({}B)", b.len()),
        Fault::Insert(b) => format!("Insert({}B)", b.len()),
        Fault::WrongAad(b) => format!("WrongAad({}B)", b.len()),
        Fault::Garbage(b) => format!("Garbage({}B)", b.len()),
        Fault::TagExtend(b) => format!("TagExtend({}B)", b.len()),
        Fault::PlaintextAsBody(i, t) => format!("PlaintextAsBody({}, {})", i, t),
        other => format!("{:?}", other),
    }
}

pub fn tx_res(tx: &mut crate::util::Fnv, r: &Result<Vec<u8>, Fail>) {
    match r {
        Ok(v) => {
            tx.put(b"ok");
            tx.put_u64(v.len() as u64);
            tx.put(v)
        }
        Err(f) => {
            tx.put(b"err");
            tx.put(short(f).as_bytes())
        }
    }
}

pub fn out_class_s<T>(r: &Result<T, Fail>) -> String {
    match r {
        Ok(_) => "ok".into(),
        Err(Fail::Hpke(e)) => match e {
            E::IncorrectInputLength(..) => "IncorrectInputLength".into(),
            e => format!("{:?}", e),
        },
        Err(Fail::Decode(w, _)) => format!("decode-{}", w),
        Err(Fail::Panic(_)) => "panic".into(),
    }
}
pub fn res_s(r: &Res<Vec<u8>>) -> String {
    match r {
        Ok(v) => format!("Ok({})", short_hex(v)),
        Err(f) => format!("Err({})", short(f)),
    }
}
