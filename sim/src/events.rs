//! Event vocabulary. A case is an explicit list of events with all arguments spelled out; the
//! replay file is that list (not the PRNG), so any sub-list is executable: events that refer to a
//! key slot, context or record that does not exist are defined as no-ops.

use crate::suites::{Kind, KemId, ModeKind, SuiteId};
use crate::util::B;
use serde::{Deserialize, Serialize};

#[derive(Clone, Debug, PartialEq, Eq, Serialize, Deserialize)]
pub struct Cfg {
    pub suite: SuiteId,
    pub mode: ModeKind,
    pub info: B,
    pub psk: B,
    pub psk_id: B,
}

#[derive(Clone, Copy, Debug, PartialEq, Eq, Serialize, Deserialize, Hash)]
pub enum Role {
    S,
    R,
}

#[derive(Clone, Debug, PartialEq, Eq, Serialize, Deserialize)]
pub enum EncSrc {
    /// the encapsulated key emitted by sender context `c`
    Of(usize),
    /// that key with one bit flipped (bit index taken modulo the length)
    OfFlip(usize, usize),
    /// X25519 only: the non-canonical twin of that key (u+p if it fits, else bit 255 set)
    OfTwin(usize),
    Raw(B),
}

/// Which record of sender context `from` is put on the wire, relative to the receiver's position
#[derive(Clone, Copy, Debug, PartialEq, Eq, Serialize, Deserialize)]
pub enum RecRef {
    /// the record sealed at the receiver's current position
    Next,
    /// sealed k positions before the receiver's position (a replay)
    Back(u64),
    /// sealed k positions ahead (a skipped message)
    Ahead(u64),
    /// i-th record ever produced by that sender context (modulo their number)
    Index(usize),
}

#[derive(Clone, Copy, Debug, PartialEq, Eq, Serialize, Deserialize, Hash)]
pub enum Field {
    Ct,
    Tag,
    Aad,
}

#[derive(Clone, Debug, PartialEq, Eq, Serialize, Deserialize)]
pub enum Fault {
    None,
    /// flip bit (index modulo 8*len) of a field; does nothing if the field is empty
    BitFlip(Field, usize),
    /// keep only the first n (modulo len) bytes of ct||tag
    Truncate(usize),
    /// append bytes to ct||tag
    Extend(B),
    /// insert bytes between ct and tag
    Insert(B),
    /// replace the tag / the aad / the ciphertext body by that of the i-th record of the same sender context
    SpliceTag(usize),
    SpliceAad(usize),
    SwapCt(usize),
    /// replace the aad
    WrongAad(B),
    /// replace ct||tag altogether
    Garbage(B),
    /// overwrite one byte of a field: index >= 0 from the start, < 0 from the end (-1 = last byte)
    ByteSet(Field, i32, u8),
    /// detached tag made longer by these bytes (for the allocating forms: same as Extend)
    TagExtend(B),
    /// known-plaintext adversary: the body is replaced by the *plaintext* of the i-th record of the
    /// same sender context, the tag by that record's tag (or kept)
    PlaintextAsBody(usize, bool),
}

#[derive(Clone, Copy, Debug, PartialEq, Eq, Serialize, Deserialize, Hash)]
pub enum Craft {
    PrefixEnc,
    PrefixPkR,
    PrefixInfo,
    PrefixAad,
    Zeros,
    Ones,
}

#[derive(Clone, Copy, Debug, PartialEq, Eq, Serialize, Deserialize, Hash)]
pub enum OpenApi {
    Alloc,
    InPlace,
    SingleShot,
    SingleShotInPlace,
}

#[derive(Clone, Debug, PartialEq, Eq, Serialize, Deserialize)]
#[serde(tag = "ev")]
pub enum Ev {
    /// key directory: slot k := derive_keypair(ikm)
    Keygen { k: usize, kem: KemId, ikm: B },
    /// key directory: slot k := gen_keypair(scripted rng)
    KeygenRng { k: usize, kem: KemId, rng: B },
    /// key directory: slot k := raw bytes as an adversary or a misconfiguration would supply them
    KeyRaw { k: usize, kem: KemId, sk: B, pk: B },
    /// sender context c := setup_sender(..). kr: recipient key slot; ks: identity key slot whose
    /// private key is used; ks_pub: slot whose public key is claimed (default: ks).
    /// party: real (library) or model-only (refhpke)
    SetupS { c: usize, cfg: Cfg, kr: usize, ks: Option<usize>, ks_pub: Option<usize>, rng: B, #[serde(default)] model_only: bool },
    SetupR { c: usize, cfg: Cfg, kr: usize, ks: Option<usize>, enc: EncSrc, #[serde(default)] model_only: bool },
    Seal { c: usize, pt: B, aad: B, inplace: bool },
    /// n seals of `len`-byte messages in a row (amortised bookkeeping; for deep counters)
    SealMany { c: usize, n: u32, len: usize, inplace: bool },
    /// the AEAD primitive fails on the next encryption (shimmed suites only)
    FailNextSeal { c: usize },
    /// the AEAD primitive fails on the next decryption of receiver r (shimmed suites only): a transient
    /// fault. The open fails with OpenError, nothing moves, and the same message opens afterwards.
    FailNextOpen { r: usize },
    Deliver { r: usize, from: usize, rec: RecRef, fault: Fault, api: OpenApi },
    /// seal on `from`, deliver to `r` untouched, n times (fault-free bulk traffic)
    Pump { r: usize, from: usize, n: u32, len: usize, inplace_s: bool, inplace_r: bool },
    /// every single-bit flip / truncation / extension / splice of one record against receiver r,
    /// re-pinning the receiver's position before each variant. `only`: restrict to one variant
    /// (used by the minimiser).
    TamperSweep { r: usize, from: usize, rec: usize, api: OpenApi, max_bits: usize, only: Option<usize> },
    Export { c: usize, role: Role, ctx: B, len: usize },
    /// compare export(ctx, len) of sender context s and receiver context r
    ExportCmp { s: usize, r: usize, ctx: B, len: usize },
    /// logical-clock jump (hook)
    Jump { c: usize, role: Role, to: u64 },
    /// logical-clock jump to a position chosen relative to the context's base nonce: the top
    /// `keep_top` bytes of the 64-bit position equal the corresponding bytes of the base nonce (so the
    /// per-message nonce has that many zero bytes in front of the counter part; 8 = all of them), the
    /// rest comes from `low`. Positions at which nonce mixing is algebraically special.
    JumpNonceRel { c: usize, role: Role, keep_top: u8, low: u64 },
    /// logical-clock jump to the position at which the counter part of the per-message nonce (the last
    /// eight bytes of base_nonce XOR position) equals `pat`: all ones, 2^k - 1, ... - positions where
    /// code that looks at the *mixed* nonce instead of the counter goes wrong
    JumpNonceXor { c: usize, role: Role, pat: u64 },
    Teardown { c: usize, role: Role },
    /// single-shot seal with the parameters of a would-be sender context, compared with the composed form
    SingleShotSeal { c: usize, cfg: Cfg, kr: usize, ks: Option<usize>, #[serde(default)] ks_pub: Option<usize>, rng: B, pt: B, aad: B, inplace: bool },

    // ---- stateless probes
    DeriveProbe { kem: KemId, ikm: B },
    GenProbe { kem: KemId, rng: B },
    KemProbe { kem: KemId, kr: usize, ks: Option<usize>, rng: B },
    DecodeProbe { suite: SuiteId, kind: Kind, bytes: B },
    WriteExactProbe { suite: SuiteId, kind: Kind, bytes: B, buflen: usize },
    PskProbe { psk: B, psk_id: B },
    /// raw open with arbitrary bytes on receiver r (no model record involved)
    RawOpen { r: usize, ct: B, aad: B, tag: Option<B> },
    /// soak: n rejected deliveries in a row on receiver r (variants of the record it would accept next,
    /// or garbage if there is none); every one must be rejected and leave the position alone
    RejectBurst { r: usize, from: usize, n: u32 },
    /// n messages of `len` bytes sealed and opened in place between sender c and receiver c without
    /// keeping records (total volume beyond 2^32 bytes on one context)
    VolumePump { c: usize, n: u32, len: usize },
    /// one message with a huge plaintext *and* a huge aad through the allocating seal/open of the pair
    /// of contexts c (sums of lengths beyond 2^32)
    HugeAlloc { c: usize, pt_len: u64, aad_len: u64 },
    /// a configuration string (0 info, 1 psk_id, 2 psk) of `pad` zero bytes after an 8-byte tag, i.e.
    /// longer than 2^32 bytes: the matching receiver opens, a receiver that holds only the first
    /// (length mod 2^32) bytes - or the string with its last byte changed - does not
    HugeFieldProbe { suite: SuiteId, field: u8, pad: u64 },
    /// n exports in a row on one context (counters of successes in a narrow integer)
    ExportBurst { c: usize, role: Role, n: u32, len: usize },
    /// context dropped while its thread is unwinding from a panic (the wipes must still happen)
    TeardownUnwinding { c: usize, role: Role },
    /// content-dependent adversary: for every record of sender `from` whose ct||tag ends in zero
    /// bytes, deliver it with exactly those bytes stripped (receiver re-pinned on the record's position)
    StripZerosProbe { r: usize, from: usize },
    /// single-shot open with explicit (possibly hostile) inputs, compared with setup_receiver + open
    SingleShotOpenRaw { cfg: Cfg, kr: usize, ks: Option<usize>, enc: EncSrc, ct: B, aad: B, tag: Option<B> },
    /// content-dependent traffic: the plaintext is chosen (from the model's keystream at the sender's
    /// position) so that the *ciphertext* body has a given shape: it begins with the encapsulated key,
    /// the recipient public key, the info string or the aad, or is all 0x00 / all 0xff
    SealCrafted { c: usize, craft: Craft, len: usize, aad: B, inplace: bool },
    /// PskBundle::new with slices of these lengths (taken from one lazily mapped zero buffer, never
    /// read): lengths at and beyond 2^31 / 2^32 where products and sums of lengths wrap
    PskLenProbe { psk_len: u64, id_len: u64 },
    /// C18: event `ev` of world `w`, executed on worker thread `t` (token passing: exactly one worker
    /// runs at any time, the others are parked)
    On { w: usize, t: usize, inner: Box<Ev> },
    /// C18: like `On`, but while that operation is suspended at its `at`-th seam call (a draw from the
    /// caller's RNG, an AEAD call of a shimmed suite) the `nested` operations (`On` events of *other*
    /// worlds) run - on other workers, or re-entrantly on the same worker thread if they name it. If
    /// the operation makes fewer seam calls they run right after it.
    OnNested { w: usize, t: usize, inner: Box<Ev>, at: u32, nested: Vec<Ev> },
}

impl Ev {
    pub fn kind(&self) -> &'static str {
        match self {
            Ev::Keygen { .. } => "Keygen",
            Ev::KeygenRng { .. } => "KeygenRng",
            Ev::KeyRaw { .. } => "KeyRaw",
            Ev::SetupS { .. } => "SetupS",
            Ev::SetupR { .. } => "SetupR",
            Ev::Seal { .. } => "Seal",
            Ev::SealMany { .. } => "SealMany",
            Ev::FailNextSeal { .. } => "FailNextSeal",
            Ev::FailNextOpen { .. } => "FailNextOpen",
            Ev::Deliver { .. } => "Deliver",
            Ev::Pump { .. } => "Pump",
            Ev::TamperSweep { .. } => "TamperSweep",
            Ev::Export { .. } => "Export",
            Ev::ExportCmp { .. } => "ExportCmp",
            Ev::Jump { .. } => "Jump",
            Ev::JumpNonceRel { .. } => "JumpNonceRel",
            Ev::JumpNonceXor { .. } => "JumpNonceXor",
            Ev::Teardown { .. } => "Teardown",
            Ev::SingleShotSeal { .. } => "SingleShotSeal",
            Ev::DeriveProbe { .. } => "DeriveProbe",
            Ev::GenProbe { .. } => "GenProbe",
            Ev::KemProbe { .. } => "KemProbe",
            Ev::DecodeProbe { .. } => "DecodeProbe",
            Ev::WriteExactProbe { .. } => "WriteExactProbe",
            Ev::PskProbe { .. } => "PskProbe",
            Ev::RawOpen { .. } => "RawOpen",
            Ev::SealCrafted { .. } => "SealCrafted",
            Ev::PskLenProbe { .. } => "PskLenProbe",
            Ev::On { .. } => "On",
            Ev::OnNested { .. } => "OnNested",
            Ev::RejectBurst { .. } => "RejectBurst",
            Ev::ExportBurst { .. } => "ExportBurst",
            Ev::VolumePump { .. } => "VolumePump",
            Ev::HugeAlloc { .. } => "HugeAlloc",
            Ev::HugeFieldProbe { .. } => "HugeFieldProbe",
            Ev::TeardownUnwinding { .. } => "TeardownUnwinding",
            Ev::StripZerosProbe { .. } => "StripZerosProbe",
            Ev::SingleShotOpenRaw { .. } => "SingleShotOpenRaw",
        }
    }
}

#[derive(Clone, Debug, Serialize, Deserialize)]
pub struct Case {
    pub property: String,
    pub master_seed: u64,
    pub run_index: u64,
    pub run_seed: u64,
    pub tier: String,
    pub events: Vec<Ev>,
}

#[derive(Clone, Debug, Serialize, Deserialize, PartialEq, Eq)]
pub struct Violation {
    pub property: String,
    pub invariant: String,
    pub at_event: usize,
    pub expected: String,
    pub observed: String,
}

#[derive(Clone, Debug, Serialize, Deserialize)]
pub struct ReplayFile {
    pub harness_version: String,
    /// which build of the library the violation was observed with ("" = checks-on build, "plain" =
    /// ordinary release build without overflow checks / debug assertions)
    #[serde(default)]
    pub build_profile: String,
    pub case: Case,
    pub violation: Violation,
    pub minimised: bool,
    pub original_events: usize,
}
