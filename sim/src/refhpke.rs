//! `refhpke`: an independent, runtime-parameterised RFC 9180 implementation written from the RFC's
//! pseudo-code. HMAC and HKDF are written here on bare `sha2` (it does not share hpke's use of the
//! `hkdf`/`hmac` crates); DH uses `x25519_dalek::x25519` and plain point arithmetic of the curve
//! crates; AEAD uses the raw RustCrypto ciphers. Suites are runtime values, not types.

use crate::suites::{AeadId, KdfId, KemId, ModeKind};
use aead::{AeadInPlace, KeyInit};
use sha2::Digest;

// ---------------------------------------------------------------------------------- hash / HMAC / HKDF

pub fn hash(h: KdfId, parts: &[&[u8]]) -> Vec<u8> {
    match h {
        KdfId::S256 => {
            let mut d = sha2::Sha256::new();
            for p in parts {
                d.update(p);
            }
            d.finalize().to_vec()
        }
        KdfId::S384 => {
            let mut d = sha2::Sha384::new();
            for p in parts {
                d.update(p);
            }
            d.finalize().to_vec()
        }
        KdfId::S512 => {
            let mut d = sha2::Sha512::new();
            for p in parts {
                d.update(p);
            }
            d.finalize().to_vec()
        }
    }
}
fn block_len(h: KdfId) -> usize {
    match h {
        KdfId::S256 => 64,
        _ => 128,
    }
}

pub fn hmac(h: KdfId, key: &[u8], parts: &[&[u8]]) -> Vec<u8> {
    let b = block_len(h);
    let mut k = if key.len() > b { hash(h, &[key]) } else { key.to_vec() };
    k.resize(b, 0);
    let ipad: Vec<u8> = k.iter().map(|x| x ^ 0x36).collect();
    let opad: Vec<u8> = k.iter().map(|x| x ^ 0x5c).collect();
    let mut inner_parts: Vec<&[u8]> = vec![&ipad];
    inner_parts.extend_from_slice(parts);
    let inner = hash(h, &inner_parts);
    hash(h, &[&opad, &inner])
}

pub fn hkdf_extract(h: KdfId, salt: &[u8], ikm_parts: &[&[u8]]) -> Vec<u8> {
    // RFC 5869: if salt is not provided it is set to HashLen zeros; HMAC zero-pads the key anyway
    let zeros = vec![0u8; h.nh()];
    let salt = if salt.is_empty() { &zeros[..] } else { salt };
    hmac(h, salt, ikm_parts)
}

/// None iff L > 255*Nh
pub fn hkdf_expand(h: KdfId, prk: &[u8], info_parts: &[&[u8]], l: usize) -> Option<Vec<u8>> {
    let nh = h.nh();
    if l > 255 * nh {
        return None;
    }
    let mut out = Vec::with_capacity(l + nh);
    let mut t: Vec<u8> = Vec::new();
    let mut i = 1u8;
    while out.len() < l {
        let mut parts: Vec<&[u8]> = vec![&t];
        parts.extend_from_slice(info_parts);
        let ib = [i];
        parts.push(&ib);
        let nt = hmac(h, prk, &parts);
        out.extend_from_slice(&nt);
        t = nt;
        i = i.wrapping_add(1);
    }
    out.truncate(l);
    Some(out)
}

const VERSION: &[u8] = b"HPKE-v1";

pub fn labeled_extract(h: KdfId, salt: &[u8], suite_id: &[u8], label: &[u8], ikm: &[u8]) -> Vec<u8> {
    hkdf_extract(h, salt, &[VERSION, suite_id, label, ikm])
}

/// None iff L > 255*Nh (or L does not fit the two-byte length prefix)
pub fn labeled_expand(h: KdfId, prk: &[u8], suite_id: &[u8], label: &[u8], info: &[u8], l: usize) -> Option<Vec<u8>> {
    if l > 0xFFFF {
        return None;
    }
    let lb = [(l >> 8) as u8, (l & 0xff) as u8];
    hkdf_expand(h, prk, &[&lb, VERSION, suite_id, label, info], l)
}

pub fn kem_suite_id(kem: KemId) -> Vec<u8> {
    let id = kem.rfc_id();
    vec![b'K', b'E', b'M', (id >> 8) as u8, id as u8]
}
pub fn hpke_suite_id(kem: KemId, kdf: KdfId, aead: AeadId) -> Vec<u8> {
    let mut v = b"HPKE".to_vec();
    for id in [kem.rfc_id(), kdf.rfc_id(), aead.rfc_id()] {
        v.push((id >> 8) as u8);
        v.push(id as u8);
    }
    v
}

// ---------------------------------------------------------------------------------- groups

/// Group orders n (big-endian, Nsk bytes), FIPS 186-4
pub fn order(kem: KemId) -> Vec<u8> {
    let s = match kem {
        KemId::P256 => "ffffffff00000000ffffffffffffffffbce6faada7179e84f3b9cac2fc632551",
        KemId::P384 => "ffffffffffffffffffffffffffffffffffffffffffffffffc7634d81f4372ddf581a0db248b0a77aecec196accc52973",
        KemId::P521 => "01fffffffffffffffffffffffffffffffffffffffffffffffffffffffffffffffffa51868783bf2f966b7fcc0148f709a5d03bb5c9b8899c47aebb6fb71e91386409",
        KemId::X25519 => "",
    };
    crate::util::unhex(s)
}

macro_rules! nist_group {
    ($name:ident, $c:ident) => {
        mod $name {
            use $c::elliptic_curve::sec1::{FromEncodedPoint, ToEncodedPoint};
            use $c::{AffinePoint, EncodedPoint, NonZeroScalar, ProjectivePoint};
            fn scalar(sk: &[u8]) -> Option<NonZeroScalar> {
                let fb = $c::FieldBytes::clone_from_slice(sk);
                Option::from(NonZeroScalar::from_repr(fb))
            }
            fn point(pk: &[u8]) -> Option<AffinePoint> {
                let ep = EncodedPoint::from_bytes(pk).ok()?;
                Option::from(AffinePoint::from_encoded_point(&ep))
            }
            pub fn pk_of(sk: &[u8]) -> Option<Vec<u8>> {
                let s = scalar(sk)?;
                let p = (ProjectivePoint::GENERATOR * *s).to_affine();
                Some(p.to_encoded_point(false).as_bytes().to_vec())
            }
            /// sk^-1 * T for a point T given in uncompressed form (so that sk * result = T)
            pub fn inv_mul(sk: &[u8], t: &[u8]) -> Option<Vec<u8>> {
                let s = scalar(sk)?;
                use $c::elliptic_curve::Field;
                let inv: $c::Scalar = Option::from(Field::invert(&*s))?;
                let p = point(t)?;
                let q = (ProjectivePoint::from(p) * inv).to_affine();
                Some(q.to_encoded_point(false).as_bytes().to_vec())
            }
            /// x-coordinate of sk * pk
            pub fn dh(sk: &[u8], pk: &[u8]) -> Option<Vec<u8>> {
                let s = scalar(sk)?;
                let p = point(pk)?;
                let q = (ProjectivePoint::from(p) * *s).to_affine();
                let e = q.to_encoded_point(false);
                Some(e.x()?.to_vec())
            }
        }
    };
}
nist_group!(g256, p256);
nist_group!(g384, p384);
nist_group!(g521, p521);

pub fn pk_of(kem: KemId, sk: &[u8]) -> Option<Vec<u8>> {
    let (_, _, nsk) = kem.rfc_sizes();
    if sk.len() != nsk {
        return None;
    }
    match kem {
        KemId::X25519 => {
            let mut k = [0u8; 32];
            k.copy_from_slice(sk);
            Some(x25519_dalek::x25519(k, x25519_dalek::X25519_BASEPOINT_BYTES).to_vec())
        }
        KemId::P256 => g256::pk_of(sk),
        KemId::P384 => g384::pk_of(sk),
        KemId::P521 => g521::pk_of(sk),
    }
}

/// DH(sk, pk) as the Ndh-byte string of RFC 9180 §4.1; None if the inputs are invalid or (X25519)
/// the result is all-zero.
pub fn dh(kem: KemId, sk: &[u8], pk: &[u8]) -> Option<Vec<u8>> {
    let (_, npk, nsk) = kem.rfc_sizes();
    if sk.len() != nsk || pk.len() != npk {
        return None;
    }
    match kem {
        KemId::X25519 => {
            let mut k = [0u8; 32];
            k.copy_from_slice(sk);
            let mut u = [0u8; 32];
            u.copy_from_slice(pk);
            let r = x25519_dalek::x25519(k, u);
            if r == [0u8; 32] {
                None
            } else {
                Some(r.to_vec())
            }
        }
        KemId::P256 => g256::dh(sk, pk),
        KemId::P384 => g384::dh(sk, pk),
        KemId::P521 => g521::dh(sk, pk),
    }
}

/// A valid public key P such that DH(sk, P) has x-coordinate 0 (the Wycheproof "x = 0" edge case:
/// the DH result is the prime-order point (0, sqrt(b)), which is *not* the point at infinity and
/// must be accepted). None for X25519 or if b is a non-residue.
pub fn zero_x_partner(kem: KemId, sk: &[u8]) -> Option<Vec<u8>> {
    if kem == KemId::X25519 {
        return None;
    }
    let cv = crate::math::curve(kem);
    let y = cv.sqrt(&cv.b)?;
    let t = cv.encode(&crate::math::U::ZERO, &y);
    match kem {
        KemId::P256 => g256::inv_mul(sk, &t),
        KemId::P384 => g384::inv_mul(sk, &t),
        KemId::P521 => g521::inv_mul(sk, &t),
        KemId::X25519 => None,
    }
}

/// Valid peer public key P for the NIST private key `sk` such that the x-coordinate of sk*P is `x`
/// (None if no curve point has that x-coordinate)
pub fn partner_for_x(kem: KemId, sk: &[u8], x: &crate::math::U) -> Option<Vec<u8>> {
    if kem == KemId::X25519 {
        return None;
    }
    let cv = crate::math::curve(kem);
    if !x.lt(&cv.p) {
        return None;
    }
    let y = cv.sqrt(&cv.rhs(x))?;
    if !cv.on_curve(x, &y) {
        return None;
    }
    let t = cv.encode(x, &y);
    match kem {
        KemId::P256 => g256::inv_mul(sk, &t),
        KemId::P384 => g384::inv_mul(sk, &t),
        KemId::P521 => g521::inv_mul(sk, &t),
        KemId::X25519 => None,
    }
}

/// X25519: peer public key P for the private key `sk` such that X25519(sk, P) = `t`. Exists when `t`
/// is the u-coordinate of a point of the prime-order subgroup of the curve (not of the twist).
pub fn x25519_partner(sk: &[u8], t: &[u8]) -> Option<Vec<u8>> {
    use curve25519_dalek::montgomery::MontgomeryPoint;
    use curve25519_dalek::scalar::Scalar;
    if sk.len() != 32 || t.len() != 32 || t[31] & 0x80 != 0 {
        return None;
    }
    let mut tb = [0u8; 32];
    tb.copy_from_slice(t);
    let tp = MontgomeryPoint(tb);
    let ed = tp.to_edwards(0)?;
    if !ed.is_torsion_free() || ed.is_small_order() {
        return None;
    }
    let mut kb = [0u8; 32];
    kb.copy_from_slice(&clamp(sk));
    let k = Scalar::from_bytes_mod_order(kb);
    if k == Scalar::ZERO {
        return None;
    }
    let p = &tp * &k.invert();
    // independent confirmation through the ordinary X25519 function
    let mut skb = [0u8; 32];
    skb.copy_from_slice(sk);
    if x25519_dalek::x25519(skb, p.0) != tb {
        return None;
    }
    Some(p.0.to_vec())
}

/// Whether a 32-byte u-coordinate lies on the quadratic twist of Curve25519
pub fn x25519_on_twist(u: &[u8]) -> bool {
    if u.len() != 32 {
        return false;
    }
    let mut b = [0u8; 32];
    b.copy_from_slice(u);
    curve25519_dalek::montgomery::MontgomeryPoint(b).to_edwards(0).is_none()
}

/// RFC 7748 clamping of an X25519 scalar (for comparisons "up to clamping")
pub fn clamp(sk: &[u8]) -> Vec<u8> {
    let mut k = sk.to_vec();
    if k.len() == 32 {
        k[0] &= 248;
        k[31] &= 127;
        k[31] |= 64;
    }
    k
}

/// RFC 9180 §7.1.3 DeriveKeyPair. Returns (sk, pk, counter used).
pub fn derive_keypair(kem: KemId, ikm: &[u8]) -> (Vec<u8>, Vec<u8>, u32) {
    let h = kem.kem_kdf();
    let sid = kem_suite_id(kem);
    let (_, _, nsk) = kem.rfc_sizes();
    let dkp_prk = labeled_extract(h, b"", &sid, b"dkp_prk", ikm);
    if kem == KemId::X25519 {
        let sk = labeled_expand(h, &dkp_prk, &sid, b"sk", b"", nsk).unwrap();
        let pk = pk_of(kem, &sk).unwrap();
        return (sk, pk, 0);
    }
    let n = order(kem);
    let bitmask = if kem == KemId::P521 { 0x01 } else { 0xFF };
    let mut counter: u32 = 0;
    loop {
        if counter > 255 {
            panic!("refhpke: DeriveKeyPair exhausted");
        }
        let mut bytes = labeled_expand(h, &dkp_prk, &sid, b"candidate", &[counter as u8], nsk).unwrap();
        bytes[0] &= bitmask;
        let nonzero = bytes.iter().any(|b| *b != 0);
        // big-endian byte-wise comparison with the order
        if nonzero && bytes.as_slice() < n.as_slice() {
            let pk = pk_of(kem, &bytes).unwrap();
            return (bytes, pk, counter);
        }
        counter += 1;
    }
}

fn extract_and_expand(kem: KemId, dh: &[u8], kem_context: &[u8]) -> Vec<u8> {
    let h = kem.kem_kdf();
    let sid = kem_suite_id(kem);
    let eae_prk = labeled_extract(h, b"", &sid, b"eae_prk", dh);
    labeled_expand(h, &eae_prk, &sid, b"shared_secret", kem_context, kem.rfc_sizes().0).unwrap()
}

/// Encap / AuthEncap with the ephemeral key pair (skE, pkE). `auth` = (skS, pkS as claimed).
pub fn encap_with(kem: KemId, pk_r: &[u8], sk_e: &[u8], pk_e: &[u8], auth: Option<(&[u8], &[u8])>) -> Option<(Vec<u8>, Vec<u8>)> {
    let mut dhv = dh(kem, sk_e, pk_r)?;
    let enc = pk_e.to_vec();
    let mut kem_context = enc.clone();
    kem_context.extend_from_slice(pk_r);
    if let Some((sk_s, pk_s)) = auth {
        dhv.extend_from_slice(&dh(kem, sk_s, pk_r)?);
        kem_context.extend_from_slice(pk_s);
    }
    Some((extract_and_expand(kem, &dhv, &kem_context), enc))
}

/// Decap / AuthDecap
pub fn decap(kem: KemId, enc: &[u8], sk_r: &[u8], pk_s: Option<&[u8]>) -> Option<Vec<u8>> {
    let mut dhv = dh(kem, sk_r, enc)?;
    let pk_r = pk_of(kem, sk_r)?;
    let mut kem_context = enc.to_vec();
    kem_context.extend_from_slice(&pk_r);
    if let Some(pk_s) = pk_s {
        dhv.extend_from_slice(&dh(kem, sk_r, pk_s)?);
        kem_context.extend_from_slice(pk_s);
    }
    Some(extract_and_expand(kem, &dhv, &kem_context))
}

// ---------------------------------------------------------------------------------- key schedule / context

#[derive(Clone, Debug)]
pub struct RefCtx {
    pub kdf: KdfId,
    pub aead: AeadId,
    pub suite_id: Vec<u8>,
    pub key: Vec<u8>,
    pub base_nonce: Vec<u8>,
    pub exporter_secret: Vec<u8>,
    /// 0..=2^64: the RFC's limit for Nn = 12 is far above; the library's limit is 2^64 messages
    pub seq: u128,
}

/// KeySchedule without VerifyPSKInputs (the library deliberately lets an empty bundle through)
pub fn key_schedule(kem: KemId, kdf: KdfId, aead: AeadId, mode: ModeKind, shared_secret: &[u8], info: &[u8], psk: &[u8], psk_id: &[u8]) -> RefCtx {
    let sid = hpke_suite_id(kem, kdf, aead);
    let psk_id_hash = labeled_extract(kdf, b"", &sid, b"psk_id_hash", psk_id);
    let info_hash = labeled_extract(kdf, b"", &sid, b"info_hash", info);
    let mut ksc = vec![mode.byte()];
    ksc.extend_from_slice(&psk_id_hash);
    ksc.extend_from_slice(&info_hash);
    let secret = labeled_extract(kdf, shared_secret, &sid, b"secret", psk);
    let (nk, nn, _) = aead.rfc_sizes();
    let key = labeled_expand(kdf, &secret, &sid, b"key", &ksc, nk).unwrap();
    let base_nonce = labeled_expand(kdf, &secret, &sid, b"base_nonce", &ksc, nn).unwrap();
    let exporter_secret = labeled_expand(kdf, &secret, &sid, b"exp", &ksc, kdf.nh()).unwrap();
    RefCtx { kdf, aead, suite_id: sid, key, base_nonce, exporter_secret, seq: 0 }
}

pub fn compute_nonce(base: &[u8], seq: u128) -> Vec<u8> {
    // I2OSP(seq, Nn) xor base_nonce
    let nn = base.len();
    let mut out = base.to_vec();
    for i in 0..nn.min(16) {
        out[nn - 1 - i] ^= ((seq >> (8 * i)) & 0xff) as u8;
    }
    out
}

pub fn aead_seal(aead: AeadId, key: &[u8], nonce: &[u8], aad: &[u8], pt: &[u8]) -> Vec<u8> {
    let mut buf = pt.to_vec();
    let tag = match aead {
        AeadId::Aes128 => aes_gcm::Aes128Gcm::new_from_slice(key).unwrap().encrypt_in_place_detached(nonce.into(), aad, &mut buf).unwrap().to_vec(),
        AeadId::Aes256 => aes_gcm::Aes256Gcm::new_from_slice(key).unwrap().encrypt_in_place_detached(nonce.into(), aad, &mut buf).unwrap().to_vec(),
        AeadId::ChaCha => chacha20poly1305::ChaCha20Poly1305::new_from_slice(key).unwrap().encrypt_in_place_detached(nonce.into(), aad, &mut buf).unwrap().to_vec(),
        AeadId::Export => panic!("refhpke: export-only"),
    };
    buf.extend_from_slice(&tag);
    buf
}

pub fn aead_open(aead: AeadId, key: &[u8], nonce: &[u8], aad: &[u8], ct: &[u8]) -> Option<Vec<u8>> {
    let (_, _, nt) = aead.rfc_sizes();
    if ct.len() < nt {
        return None;
    }
    let (c, t) = ct.split_at(ct.len() - nt);
    let mut buf = c.to_vec();
    let ok = match aead {
        AeadId::Aes128 => aes_gcm::Aes128Gcm::new_from_slice(key).unwrap().decrypt_in_place_detached(nonce.into(), aad, &mut buf, t.into()).is_ok(),
        AeadId::Aes256 => aes_gcm::Aes256Gcm::new_from_slice(key).unwrap().decrypt_in_place_detached(nonce.into(), aad, &mut buf, t.into()).is_ok(),
        AeadId::ChaCha => chacha20poly1305::ChaCha20Poly1305::new_from_slice(key).unwrap().decrypt_in_place_detached(nonce.into(), aad, &mut buf, t.into()).is_ok(),
        AeadId::Export => panic!("refhpke: export-only"),
    };
    if ok {
        Some(buf)
    } else {
        None
    }
}

impl RefCtx {
    /// ContextS.Seal at the current position; increments
    pub fn seal(&mut self, aad: &[u8], pt: &[u8]) -> Vec<u8> {
        let n = compute_nonce(&self.base_nonce, self.seq);
        let ct = aead_seal(self.aead, &self.key, &n, aad, pt);
        self.seq += 1;
        ct
    }
    pub fn seal_at(&self, seq: u128, aad: &[u8], pt: &[u8]) -> Vec<u8> {
        let n = compute_nonce(&self.base_nonce, seq);
        aead_seal(self.aead, &self.key, &n, aad, pt)
    }
    pub fn open(&mut self, aad: &[u8], ct: &[u8]) -> Option<Vec<u8>> {
        let n = compute_nonce(&self.base_nonce, self.seq);
        let pt = aead_open(self.aead, &self.key, &n, aad, ct)?;
        self.seq += 1;
        Some(pt)
    }
    pub fn export(&self, exporter_context: &[u8], l: usize) -> Option<Vec<u8>> {
        labeled_expand(self.kdf, &self.exporter_secret, &self.suite_id, b"sec", exporter_context, l)
    }
}

/// SetupS for all four modes: ephemeral = DeriveKeyPair(ikm_e). `auth` = (skS, pkS as claimed).
pub fn setup_s(kem: KemId, kdf: KdfId, aead: AeadId, mode: ModeKind, pk_r: &[u8], info: &[u8], psk: &[u8], psk_id: &[u8], auth: Option<(&[u8], &[u8])>, ikm_e: &[u8]) -> Option<(Vec<u8>, RefCtx, Vec<u8>)> {
    let (sk_e, pk_e, _) = derive_keypair(kem, ikm_e);
    let (ss, enc) = encap_with(kem, pk_r, &sk_e, &pk_e, if mode.has_auth() { auth } else { None })?;
    let (psk, psk_id): (&[u8], &[u8]) = if mode.has_psk() { (psk, psk_id) } else { (b"", b"") };
    let ctx = key_schedule(kem, kdf, aead, mode, &ss, info, psk, psk_id);
    Some((enc, ctx, ss))
}

pub fn setup_r(kem: KemId, kdf: KdfId, aead: AeadId, mode: ModeKind, enc: &[u8], sk_r: &[u8], info: &[u8], psk: &[u8], psk_id: &[u8], pk_s: Option<&[u8]>) -> Option<(RefCtx, Vec<u8>)> {
    let ss = decap(kem, enc, sk_r, if mode.has_auth() { pk_s } else { None })?;
    let (psk, psk_id): (&[u8], &[u8]) = if mode.has_psk() { (psk, psk_id) } else { (b"", b"") };
    Some((key_schedule(kem, kdf, aead, mode, &ss, info, psk, psk_id), ss))
}

// ---------------------------------------------------------------------------------- self-test (RFC 9180 A.1.1)

pub fn selftest() -> Result<(), String> {
    use crate::util::{hex, unhex};
    // RFC 4231 test case 2 (HMAC-SHA-256), an anchor for the hand-written HMAC
    let m = hmac(KdfId::S256, b"Jefe", &[b"what do ya want ", b"for nothing?"]);
    if hex(&m) != "5bdcc146bf60754e6a042426089575c75a003f089d2739839dec58b964ec3843" {
        return Err(format!("HMAC-SHA256 RFC 4231 tc2 mismatch: {}", hex(&m)));
    }
    // RFC 5869 test case 1 (HKDF-SHA-256)
    let prk = hkdf_extract(KdfId::S256, &unhex("000102030405060708090a0b0c"), &[&unhex("0b0b0b0b0b0b0b0b0b0b0b0b0b0b0b0b0b0b0b0b0b0b")]);
    if hex(&prk) != "077709362c2e32df0ddc3f0dc47bba6390b6c73bb50f9c3122ec844ad7c2b3e5" {
        return Err(format!("HKDF extract RFC 5869 tc1 mismatch: {}", hex(&prk)));
    }
    let okm = hkdf_expand(KdfId::S256, &prk, &[&unhex("f0f1f2f3f4f5f6f7f8f9")], 42).unwrap();
    if hex(&okm) != "3cb25f25faacd57a90434f64d0362f2a2d2d0a90cf1a5a4c5db02d56ecc4c5bf34007208d5b887185865" {
        return Err(format!("HKDF expand RFC 5869 tc1 mismatch: {}", hex(&okm)));
    }
    // RFC 9180 A.1.1
    let info = unhex("4f6465206f6e2061204772656369616e2055726e");
    let ikm_e = unhex("7268600d403fce431561aef583ee1613527cff655c1343f29812e66706df3234");
    let ikm_r = unhex("6db9df30aa07dd42ee5e8181afdb977e538f5e1fec8a06223f33f7013e525037");
    let (sk_r, pk_r, _) = derive_keypair(KemId::X25519, &ikm_r);
    if hex(&pk_r) != "3948cfe0ad1ddb695d780e59077195da6c56506b027329794ab02bca80815c4d" {
        return Err(format!("A.1.1 pkRm mismatch: {}", hex(&pk_r)));
    }
    if hex(&clamp(&sk_r)) != hex(&clamp(&unhex("4612c550263fc8ad58375df3f557aac531d26850903e55a9f23f21d8534e8ac8"))) {
        return Err(format!("A.1.1 skRm mismatch: {}", hex(&sk_r)));
    }
    let (enc, mut ctx, ss) = setup_s(KemId::X25519, KdfId::S256, AeadId::Aes128, ModeKind::Base, &pk_r, &info, b"", b"", None, &ikm_e).ok_or("A.1.1 setup failed")?;
    let checks: [(&str, String, &str); 5] = [
        ("enc", hex(&enc), "37fda3567bdbd628e88668c3c8d7e97d1d1253b6d4ea6d44c150f741f1bf4431"),
        ("shared_secret", hex(&ss), "fe0e18c9f024ce43799ae393c7e8fe8fce9d218875e8227b0187c04e7d2ea1fc"),
        ("key", hex(&ctx.key), "4531685d41d65f03dc48f6b8302c05b0"),
        ("base_nonce", hex(&ctx.base_nonce), "56d890e5accaaf011cff4b7d"),
        ("exporter_secret", hex(&ctx.exporter_secret), "45ff1c2e220db587171952c0592d5f5ebe103f1561a2614e38f2ffd47e99e3f8"),
    ];
    for (name, got, want) in checks.iter() {
        if got != want {
            return Err(format!("A.1.1 {} mismatch: got {} want {}", name, got, want));
        }
    }
    let pt = unhex("4265617574792069732074727574682c20747275746820626561757479");
    let ct0 = ctx.seal(&unhex("436f756e742d30"), &pt);
    if hex(&ct0) != "f938558b5d72f1a23810b4be2ab4f84331acc02fc97babc53a52ae8218a355a96d8770ac83d07bea87e13c512a" {
        return Err(format!("A.1.1 ct0 mismatch: {}", hex(&ct0)));
    }
    // receiver side of the model agrees with its sender side
    let (mut rctx, _) = setup_r(KemId::X25519, KdfId::S256, AeadId::Aes128, ModeKind::Base, &enc, &sk_r, &info, b"", b"", None).ok_or("A.1.1 setup_r failed")?;
    if rctx.open(&unhex("436f756e742d30"), &ct0).as_deref() != Some(&pt[..]) {
        return Err("A.1.1 model receiver cannot open model ciphertext".into());
    }
    Ok(())
}

/// Optional anchors recalled from memory: reported, never fatal (DESIGN §7)
pub fn optional_anchors() -> Vec<(String, bool)> {
    use crate::util::{hex, unhex};
    let info = unhex("4f6465206f6e2061204772656369616e2055726e");
    let ikm_e = unhex("7268600d403fce431561aef583ee1613527cff655c1343f29812e66706df3234");
    let ikm_r = unhex("6db9df30aa07dd42ee5e8181afdb977e538f5e1fec8a06223f33f7013e525037");
    let (_, pk_r, _) = derive_keypair(KemId::X25519, &ikm_r);
    let (_, mut ctx, _) = setup_s(KemId::X25519, KdfId::S256, AeadId::Aes128, ModeKind::Base, &pk_r, &info, b"", b"", None, &ikm_e).unwrap();
    let pt = unhex("4265617574792069732074727574682c20747275746820626561757479");
    let _ = ctx.seal(&unhex("436f756e742d30"), &pt);
    let ct1 = ctx.seal(&unhex("436f756e742d31"), &pt);
    let ct2 = ctx.seal(&unhex("436f756e742d32"), &pt);
    // further vectors recalled from RFC 9180 appendix A; each is kept only if it reproduces exactly
    let mut more: Vec<(String, bool)> = vec![];
    {
        // A.1.2: DHKEM(X25519), HKDF-SHA256, AES-128-GCM, mode_psk
        let ikm_e = unhex("78628c354e46f3e169bd231be7b2ff1c77aa302460a26dbfa15515684c00130b");
        let ikm_r = unhex("d4a09d09f575fef425905d2ab396c1449141463f698f8efdb7accfaff8995098");
        let psk = unhex("0247fd33b913760fa1fa51e1892d9f307fbe65eb171e8132c2af18555a738b82");
        let psk_id = unhex("456e6e796e20447572696e206172616e204d6f726961");
        let (_, pk_r, _) = derive_keypair(KemId::X25519, &ikm_r);
        more.push(("A.1.2 pkRm".into(), hex(&pk_r) == "9fed7e8c17387560e92cc6462a68049657246a09bfa8ade7aefe589672016366"));
        if let Some((enc, c, _)) = setup_s(KemId::X25519, KdfId::S256, AeadId::Aes128, ModeKind::Psk, &pk_r, &info, &psk, &psk_id, None, &ikm_e) {
            more.push(("A.1.2 enc".into(), hex(&enc) == "0ad0950d9fb9588e59690b74f1237ecdf1d775cd60be2eca57af5a4b0471c91b"));
            more.push(("A.1.2 key".into(), hex(&c.key) == "15026dba546e3ae05836fc7de5a7bb26"));
            more.push(("A.1.2 base_nonce".into(), hex(&c.base_nonce) == "9518635eba129d5ce0914555"));
        }
    }
    {
        // A.3.1: DHKEM(P-256), HKDF-SHA256, AES-128-GCM, mode_base
        let ikm_e = unhex("4270e54ffd08d79d5928020af4686d8f6b7d35dbe470265f1f5aa22816ce860e");
        let ikm_r = unhex("668b37171f1072f3cf12ea8a236a45df23fc13b82af3609ad1e354f6ef817550");
        let (_, pk_r, _) = derive_keypair(KemId::P256, &ikm_r);
        more.push(("A.3.1 pkRm".into(), hex(&pk_r) == "04fe8c19ce0905191ebc298a9245792531f26f0cece2460639e8bc39cb7f706a826a779b4cf969b8a0e539c7f62fb3d30ad6aa8f80e30f1d128aafd68a2ce72ea0"));
        if let Some((enc, c, _)) = setup_s(KemId::P256, KdfId::S256, AeadId::Aes128, ModeKind::Base, &pk_r, &info, b"", b"", None, &ikm_e) {
            more.push(("A.3.1 enc".into(), hex(&enc) == "04a92719c6195d5085104f469a8b9814d5838ff72b60501e2c4466e5e67b325ac98536d7b61a1af4b78e5b7f951c0900be863c403ce65c9bfcb9382657222d18c4"));
            more.push(("A.3.1 key".into(), hex(&c.key) == "868c066ef58aae6dc589b6cfdd18f97e"));
            more.push(("A.3.1 base_nonce".into(), hex(&c.base_nonce) == "4e0bc5018beba4bf004cca59"));
            more.push(("A.3.1 exporter_secret".into(), hex(&c.exporter_secret) == "14ad94af484a7ad3ef40e9f3be99ecc6fa9036df9d4920548424df127ee0d99f"));
        }
    }
    let mut base = vec![
        ("A.1.1 seq1 ct".into(), hex(&ct1) == "af2d7e9ac9ae7e270f46ba1f975be53c09f8d875bdc8535458c2494e8a6eab251c03d0c22a56b8ca42c2063b84"),
        ("A.1.1 seq2 ct".into(), hex(&ct2) == "498dfcabd92e8acedc281e85af1cb4e3e31c7dc394a1ca20e173cb72516491588d96a19ad4a683518973dcc180"),
        ("A.1.1 export ''".into(), hex(&ctx.export(b"", 32).unwrap()) == "3853fe2b4035195a573ffc53856e77058e15d9ea064de3e59f4961d0095250ee"),
        ("A.1.1 export 00".into(), hex(&ctx.export(&[0], 32).unwrap()) == "2e8f0b54673c7029649d4eb9d5e33bf1872cf76d623ff164ac185da9e88c21a5"),
        ("A.1.1 export TestContext".into(), hex(&ctx.export(b"TestContext", 32).unwrap()) == "e9e43065102c3836401bed8c3c3c75ae46be1639869391d62c61f1ec7af54931"),
    ];
    base.extend(more);
    base
}
