//! Reach counters: what a run (and a batch) actually exercised.

use crate::util::Fnv;
use std::collections::BTreeMap;

#[derive(Clone)]
pub struct Cov {
    pub counters: BTreeMap<String, u64>,
    pub sig: u64,
    pub nontrivial: bool,
    pub events: u64,
    pub ops: u64,
    pub max_pos: u64,
    pub samples: Vec<String>,
    /// auxiliary per-run value (C18: hash of the isolated transcripts)
    pub aux: u64,
}

impl Cov {
    pub fn new() -> Cov {
        Cov { counters: BTreeMap::new(), sig: Fnv::new().0, nontrivial: false, events: 0, ops: 0, max_pos: 0, samples: Vec::new(), aux: 0 }
    }
    pub fn hit(&mut self, k: &str) {
        self.hit_n(k, 1)
    }
    pub fn hit_n(&mut self, k: &str, n: u64) {
        if let Some(v) = self.counters.get_mut(k) {
            *v += n;
        } else {
            self.counters.insert(k.to_string(), n);
        }
    }
    /// fold (event kind, fault kind, abstract outcome) into the run signature
    pub fn sig_event(&mut self, kind: &str, outcome: &str) {
        let mut f = Fnv(self.sig);
        f.put(kind.as_bytes());
        f.put(b"/");
        f.put(outcome.as_bytes());
        f.put(b";");
        self.sig = f.0;
    }
    pub fn pos(&mut self, p: u64) {
        if p > self.max_pos {
            self.max_pos = p;
        }
    }
    pub fn merge(&mut self, o: &Cov) {
        for (k, v) in &o.counters {
            self.hit_n(k, *v);
        }
        self.events += o.events;
        self.ops += o.ops;
        if o.max_pos > self.max_pos {
            self.max_pos = o.max_pos;
        }
    }
}

pub fn pos_class(seq: u64, over: bool) -> &'static str {
    if over {
        return "overflowed";
    }
    match seq {
        0 => "0",
        u64::MAX => "2^64-1",
        0xFFFF_FFFF_FFFF_FFFE => "2^64-2",
        _ => {
            for k in 1..8u32 {
                let b = 1u64 << (8 * k);
                if seq == b - 1 {
                    return "2^8k-1";
                }
                if seq == b {
                    return "2^8k";
                }
            }
            if seq < 256 {
                "small"
            } else {
                "mid"
            }
        }
    }
}
