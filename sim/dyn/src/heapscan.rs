//! Heap side of the wipe check (C16). A global allocator that, while armed on the current thread,
//! inspects every block the thread frees (or shrinks/moves through realloc) for the registered secret
//! patterns *before* the block goes back to the system allocator: "the memory that held the secret no
//! longer contains it" has to hold for memory the library kept on the heap as well. Disarmed (the
//! normal state) it is the system allocator plus one thread-local read per free.

use std::alloc::{GlobalAlloc, Layout, System};
use std::cell::Cell;

const MAXP: usize = 6;
const MAXL: usize = 96;

#[derive(Clone, Copy)]
struct Pat {
    len: usize,
    b: [u8; MAXL],
}
const NOPAT: Pat = Pat { len: 0, b: [0; MAXL] };

thread_local! {
    static ARMED: Cell<bool> = const { Cell::new(false) };
    static PATS: Cell<[Pat; MAXP]> = const { Cell::new([NOPAT; MAXP]) };
    static HITS: Cell<u32> = const { Cell::new(0) };
    static BLOCKS: Cell<u64> = const { Cell::new(0) };
}

pub static DEBUG: std::sync::atomic::AtomicBool = std::sync::atomic::AtomicBool::new(false);

trait LossyBytes {
    fn to_string_lossy_bytes(self) -> DecDigits;
}
pub struct DecDigits([u8; 20], usize, usize);
impl Iterator for DecDigits {
    type Item = u8;
    fn next(&mut self) -> Option<u8> {
        if self.1 < self.2 {
            let b = self.0[self.1];
            self.1 += 1;
            Some(b)
        } else {
            None
        }
    }
}
impl LossyBytes for usize {
    fn to_string_lossy_bytes(self) -> DecDigits {
        let mut d = [0u8; 20];
        let mut i = 20;
        let mut v = self;
        if v == 0 {
            i -= 1;
            d[i] = b'0';
        }
        while v > 0 {
            i -= 1;
            d[i] = b'0' + (v % 10) as u8;
            v /= 10;
        }
        DecDigits(d, i, 20)
    }
}

pub struct ScanAlloc;

/// memset that the optimiser may not treat as a dead store in front of `free`
#[inline(always)]
unsafe fn wipe(ptr: *mut u8, n: usize) {
    // Blocks above glibc's maximal mmap threshold (32 MiB) are mapped on their own and unmapped by
    // free(): their pages never come back with old contents, and wiping multi-GiB mappings that were
    // never touched (the huge-length probes) would fault every page in.
    if n > (32 << 20) {
        return;
    }
    std::ptr::write_bytes(ptr, 0, n);
    // an empty asm block that may read memory: the stores above are observable
    std::arch::asm!("/* {0} */", in(reg) ptr, options(nostack, preserves_flags, readonly));
}

unsafe fn inspect(ptr: *mut u8, size: usize) {
    let armed = ARMED.try_with(|a| a.get()).unwrap_or(false);
    if !armed || size == 0 {
        return;
    }
    let _ = BLOCKS.try_with(|b| b.set(b.get() + 1));
    let pats = match PATS.try_with(|p| p.get()) {
        Ok(p) => p,
        Err(_) => return,
    };
    let hay = std::slice::from_raw_parts(ptr as *const u8, size);
    let mut mask = 0u32;
    for (i, p) in pats.iter().enumerate() {
        if p.len == 0 || p.len > size {
            continue;
        }
        let needle = &p.b[..p.len];
        let first = needle[0];
        let mut j = 0usize;
        while j + p.len <= size {
            if hay[j] == first && &hay[j..j + p.len] == needle {
                mask |= 1 << i;
                break;
            }
            j += 1;
        }
    }
    if mask != 0 {
        let _ = HITS.try_with(|h| h.set(h.get() | mask));
        if DEBUG.load(std::sync::atomic::Ordering::Relaxed) {
            // allocation-free report: size, then the block in hex (first 200 bytes)
            let mut line = [0u8; 512];
            let mut n = 0;
            let hexd = b"0123456789abcdef";
            for b in size.to_string_lossy_bytes() {
                line[n] = b;
                n += 1;
            }
            line[n] = b':';
            n += 1;
            for b in hay.iter().take(200) {
                line[n] = hexd[(*b >> 4) as usize];
                line[n + 1] = hexd[(*b & 15) as usize];
                n += 2;
            }
            line[n] = b'\n';
            n += 1;
            extern "C" {
                fn write(fd: i32, buf: *const u8, n: usize) -> isize;
            }
            write(2, line.as_ptr(), n);
        }
    }
}

unsafe impl GlobalAlloc for ScanAlloc {
    unsafe fn alloc(&self, l: Layout) -> *mut u8 {
        System.alloc(l)
    }
    unsafe fn alloc_zeroed(&self, l: Layout) -> *mut u8 {
        System.alloc_zeroed(l)
    }
    // Every block is wiped when it is freed (after inspection), and a realloc is an explicit
    // allocate-copy-free. So no freed memory of this process ever holds old data, a recycled block
    // starts clean, and whatever `inspect` finds in a block was written by the block's last owner:
    // without this the never-written tail of a buffer (spare capacity of a Vec or String) can show a
    // secret that the *harness* freed earlier - a false alarm that depends on heap layout.
    unsafe fn dealloc(&self, ptr: *mut u8, l: Layout) {
        inspect(ptr, l.size());
        wipe(ptr, l.size());
        System.dealloc(ptr, l)
    }
    unsafe fn realloc(&self, ptr: *mut u8, l: Layout, new_size: usize) -> *mut u8 {
        if new_size <= l.size() && new_size >= l.size() / 2 && l.size() - new_size < 4096 {
            // shrinking a little: wipe the cut-off tail and keep the block
            inspect(ptr.add(new_size), l.size() - new_size);
            wipe(ptr.add(new_size), l.size() - new_size);
            return System.realloc(ptr, l, new_size);
        }
        let nl = Layout::from_size_align_unchecked(new_size, l.align());
        let np = System.alloc(nl);
        if !np.is_null() {
            std::ptr::copy_nonoverlapping(ptr, np, l.size().min(new_size));
            inspect(ptr, l.size());
            wipe(ptr, l.size());
            System.dealloc(ptr, l);
        }
        np
    }
}

/// Start inspecting the blocks this thread frees for these patterns (at most 6, at most 96 bytes each;
/// empty patterns are ignored)
pub fn arm(pats: &[Vec<u8>]) {
    let mut a = [NOPAT; MAXP];
    for (i, p) in pats.iter().take(MAXP).enumerate() {
        if !p.is_empty() && p.len() <= MAXL {
            a[i].len = p.len();
            a[i].b[..p.len()].copy_from_slice(p);
        }
    }
    PATS.with(|c| c.set(a));
    HITS.with(|h| h.set(0));
    BLOCKS.with(|b| b.set(0));
    ARMED.with(|x| x.set(true));
}

/// Stop inspecting. Returns (bit i set = pattern i was found in a freed block, blocks inspected)
pub fn disarm() -> (u32, u64) {
    ARMED.with(|x| x.set(false));
    (HITS.with(|h| h.get()), BLOCKS.with(|b| b.get()))
}
