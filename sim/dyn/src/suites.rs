//! Type-erased access to the real library: every one of the 84 suite instantiations
//! (4 KEM x 3 KDF x {3 real AEAD, 3 shimmed AEAD, export-only}) behind one object-safe trait whose
//! arguments and results are plain bytes. Every call into `hpke` runs under `catch_unwind`; a panic
//! is an outcome (`Fail::Panic`), not a harness failure.

use crate::shim::{ScriptRng, ShimAes128, ShimAes256, ShimChaCha};
use hpke::aead::{Aead, AeadCtxR, AeadCtxS, AeadTag, AesGcm128, AesGcm256, ChaCha20Poly1305, ExportOnlyAead};
use hpke::kdf::{HkdfSha256, HkdfSha384, HkdfSha512, Kdf};
use hpke::kem::{DhP256HkdfSha256, DhP384HkdfSha384, DhP521HkdfSha512, X25519HkdfSha256};
use hpke::{Deserializable, HpkeError, Kem, OpModeR, OpModeS, PskBundle, Serializable};
use serde::{Deserialize, Serialize};
use std::marker::PhantomData;
use std::mem::MaybeUninit;
use std::panic::{catch_unwind, AssertUnwindSafe};

#[derive(Clone, Copy, PartialEq, Eq, Hash, Debug, Serialize, Deserialize, PartialOrd, Ord)]
pub enum KemId {
    X25519,
    P256,
    P384,
    P521,
}
#[derive(Clone, Copy, PartialEq, Eq, Hash, Debug, Serialize, Deserialize, PartialOrd, Ord)]
pub enum KdfId {
    S256,
    S384,
    S512,
}
#[derive(Clone, Copy, PartialEq, Eq, Hash, Debug, Serialize, Deserialize, PartialOrd, Ord)]
pub enum AeadId {
    Aes128,
    Aes256,
    ChaCha,
    Export,
}
#[derive(Clone, Copy, PartialEq, Eq, Hash, Debug, Serialize, Deserialize, PartialOrd, Ord)]
pub struct SuiteId {
    pub kem: KemId,
    pub kdf: KdfId,
    pub aead: AeadId,
    #[serde(default)]
    pub shim: bool,
}

pub const KEMS: [KemId; 4] = [KemId::X25519, KemId::P256, KemId::P384, KemId::P521];
pub const KDFS: [KdfId; 3] = [KdfId::S256, KdfId::S384, KdfId::S512];
pub const SEAL_AEADS: [AeadId; 3] = [AeadId::Aes128, AeadId::Aes256, AeadId::ChaCha];
pub const ALL_AEADS: [AeadId; 4] = [AeadId::Aes128, AeadId::Aes256, AeadId::ChaCha, AeadId::Export];

impl KemId {
    pub fn rfc_id(self) -> u16 {
        match self {
            KemId::P256 => 0x0010,
            KemId::P384 => 0x0011,
            KemId::P521 => 0x0012,
            KemId::X25519 => 0x0020,
        }
    }
    /// RFC 9180 table 2: (Nsecret, Nenc = Npk, Nsk)
    pub fn rfc_sizes(self) -> (usize, usize, usize) {
        match self {
            KemId::P256 => (32, 65, 32),
            KemId::P384 => (48, 97, 48),
            KemId::P521 => (64, 133, 66),
            KemId::X25519 => (32, 32, 32),
        }
    }
    pub fn kem_kdf(self) -> KdfId {
        match self {
            KemId::P256 | KemId::X25519 => KdfId::S256,
            KemId::P384 => KdfId::S384,
            KemId::P521 => KdfId::S512,
        }
    }
    pub fn is_nist(self) -> bool {
        self != KemId::X25519
    }
}
impl KdfId {
    pub fn rfc_id(self) -> u16 {
        match self {
            KdfId::S256 => 1,
            KdfId::S384 => 2,
            KdfId::S512 => 3,
        }
    }
    pub fn nh(self) -> usize {
        match self {
            KdfId::S256 => 32,
            KdfId::S384 => 48,
            KdfId::S512 => 64,
        }
    }
}
impl AeadId {
    pub fn rfc_id(self) -> u16 {
        match self {
            AeadId::Aes128 => 1,
            AeadId::Aes256 => 2,
            AeadId::ChaCha => 3,
            AeadId::Export => 0xFFFF,
        }
    }
    /// (Nk, Nn, Nt)
    pub fn rfc_sizes(self) -> (usize, usize, usize) {
        match self {
            AeadId::Aes128 => (16, 12, 16),
            AeadId::Aes256 => (32, 12, 16),
            AeadId::ChaCha => (32, 12, 16),
            AeadId::Export => (0, 0, 0),
        }
    }
    pub fn seals(self) -> bool {
        self != AeadId::Export
    }
}

#[derive(Clone, Copy, PartialEq, Eq, Hash, Debug, Serialize, Deserialize, PartialOrd, Ord)]
pub enum ModeKind {
    Base,
    Psk,
    Auth,
    AuthPsk,
}
pub const MODES: [ModeKind; 4] = [ModeKind::Base, ModeKind::Psk, ModeKind::Auth, ModeKind::AuthPsk];
impl ModeKind {
    pub fn byte(self) -> u8 {
        match self {
            ModeKind::Base => 0,
            ModeKind::Psk => 1,
            ModeKind::Auth => 2,
            ModeKind::AuthPsk => 3,
        }
    }
    pub fn has_psk(self) -> bool {
        matches!(self, ModeKind::Psk | ModeKind::AuthPsk)
    }
    pub fn has_auth(self) -> bool {
        matches!(self, ModeKind::Auth | ModeKind::AuthPsk)
    }
}

/// Mirror of `HpkeError` that can be serialised
#[derive(Clone, Copy, Debug, PartialEq, Eq, Hash, Serialize, Deserialize)]
pub enum E {
    MessageLimitReached,
    OpenError,
    SealError,
    KdfOutputTooLong,
    ValidationError,
    EncapError,
    DecapError,
    IncorrectInputLength(usize, usize),
    InvalidPskBundle,
}
impl From<HpkeError> for E {
    fn from(e: HpkeError) -> E {
        match e {
            HpkeError::MessageLimitReached => E::MessageLimitReached,
            HpkeError::OpenError => E::OpenError,
            HpkeError::SealError => E::SealError,
            HpkeError::KdfOutputTooLong => E::KdfOutputTooLong,
            HpkeError::ValidationError => E::ValidationError,
            HpkeError::EncapError => E::EncapError,
            HpkeError::DecapError => E::DecapError,
            HpkeError::IncorrectInputLength(a, b) => E::IncorrectInputLength(a, b),
            HpkeError::InvalidPskBundle => E::InvalidPskBundle,
        }
    }
}

#[derive(Clone, Debug, PartialEq, Eq, Hash, Serialize, Deserialize)]
pub enum Fail {
    /// The call under observation returned this error
    Hpke(E),
    /// An argument of the call could not be decoded (which argument, why)
    Decode(String, E),
    /// The call (or the decoding of an argument) panicked
    Panic(String),
}
pub type Res<T> = Result<T, Fail>;

pub fn short(f: &Fail) -> String {
    match f {
        Fail::Hpke(e) => format!("{:?}", e),
        Fail::Decode(w, e) => format!("Decode({},{:?})", w, e),
        Fail::Panic(m) => format!("Panic({})", &m[..m.len().min(60)]),
    }
}

pub fn guard<T>(f: impl FnOnce() -> T) -> Result<T, Fail> {
    match catch_unwind(AssertUnwindSafe(f)) {
        Ok(v) => Ok(v),
        Err(p) => {
            let msg = if let Some(s) = p.downcast_ref::<&str>() {
                s.to_string()
            } else if let Some(s) = p.downcast_ref::<String>() {
                s.clone()
            } else {
                "<non-string panic>".to_string()
            };
            Err(Fail::Panic(msg))
        }
    }
}
/// A caller will print the error it got: formatting it must work too
fn shown(e: HpkeError) -> Res<HpkeError> {
    guard(|| {
        let s = e.to_string();
        let d = format!("{:?}", e);
        std::hint::black_box((s.len(), d.len()));
    })?;
    Ok(e)
}
fn gh<T>(f: impl FnOnce() -> Result<T, HpkeError>) -> Res<T> {
    match guard(f)? {
        Ok(v) => Ok(v),
        Err(e) => Err(Fail::Hpke(shown(e)?.into())),
    }
}
fn dec<T: Deserializable>(what: &str, b: &[u8]) -> Res<T> {
    // the bytes sit at an odd offset of their buffer (inputs come out of packets and files, not out
    // of aligned allocations of their own)
    let off = 1 + b.len() % 7;
    let mut v = vec![0u8; b.len() + 16];
    v[off..off + b.len()].copy_from_slice(b);
    let input = &v[off..off + b.len()];
    match guard(|| T::from_bytes(input))? {
        Ok(t) => Ok(t),
        Err(e) => Err(Fail::Decode(what.to_string(), shown(e)?.into())),
    }
}

// Key objects live as long as the simulated party that owns them: a recipient decodes its private key
// once and uses that *object* for every session, it does not re-parse the bytes per call. The cache
// is per thread and per scope (= world); outside any scope every call decodes afresh.
thread_local! {
    static KEY_SCOPE: std::cell::Cell<u64> = const { std::cell::Cell::new(0) };
    static KEY_OBJS: std::cell::RefCell<std::collections::HashMap<(u64, std::any::TypeId, Vec<u8>), std::rc::Rc<dyn std::any::Any>>> = std::cell::RefCell::new(std::collections::HashMap::new());
}
/// Enter a key-object scope (0 = none); returns the previous one
pub fn set_key_scope(id: u64) -> u64 {
    KEY_SCOPE.with(|s| s.replace(id))
}
pub fn purge_key_scope(id: u64) {
    let _ = KEY_OBJS.try_with(|m| m.borrow_mut().retain(|k, _| k.0 != id));
}
fn cached<T: Deserializable + 'static>(what: &str, b: &[u8]) -> Res<std::rc::Rc<T>> {
    let scope = KEY_SCOPE.with(|s| s.get());
    if scope == 0 {
        return Ok(std::rc::Rc::new(dec::<T>(what, b)?));
    }
    let key = (scope, std::any::TypeId::of::<T>(), b.to_vec());
    if let Some(o) = KEY_OBJS.with(|m| m.borrow().get(&key).cloned()) {
        if let Ok(t) = o.downcast::<T>() {
            return Ok(t);
        }
    }
    let t = std::rc::Rc::new(dec::<T>(what, b)?);
    let any: std::rc::Rc<dyn std::any::Any> = t.clone();
    KEY_OBJS.with(|m| m.borrow_mut().insert(key, any));
    Ok(t)
}

#[derive(Clone, Debug, Default)]
pub struct ModeS {
    pub kind: Option<ModeKind>,
    pub psk: Vec<u8>,
    pub psk_id: Vec<u8>,
    pub sk_s: Vec<u8>,
    pub pk_s: Vec<u8>,
}
#[derive(Clone, Debug, Default)]
pub struct ModeR {
    pub kind: Option<ModeKind>,
    pub psk: Vec<u8>,
    pub psk_id: Vec<u8>,
    pub pk_s: Vec<u8>,
}

#[derive(Clone, Copy, Debug, PartialEq, Eq, Serialize, Deserialize, Hash)]
pub enum Kind {
    Pk,
    Sk,
    Enc,
    Tag,
}

#[derive(Clone, Debug)]
pub struct Scan {
    pub size: usize,
    /// offsets at which each pattern was found in the slot before / after the drop
    pub before: Vec<Vec<usize>>,
    pub after: Vec<Vec<usize>>,
    /// bit i: pattern i was found in a heap block freed by the destructor; number of blocks it freed
    pub heap_hits: u32,
    pub heap_blocks: u64,
}
impl Scan {
    /// The pattern was observable in the live value
    pub fn observed(&self, i: usize) -> bool {
        !self.before[i].is_empty()
    }
    /// Every place that held the pattern in the live value still holds it after the drop. (A value
    /// moved bitwise carries its padding / inactive-union bytes along, and those may contain a stale
    /// copy of a secret from a dead stack frame; such a copy is not a buffer the library holds. The
    /// buffer the library does hold is always among the `before` places, so correct code wipes at
    /// least that one.)
    pub fn survived(&self, i: usize) -> bool {
        self.observed(i) && self.before[i].iter().all(|o| self.after[i].contains(o))
    }
}

pub trait Sender {
    fn seal(&mut self, pt: &[u8], aad: &[u8]) -> Res<Vec<u8>>;
    /// In-place detached seal: `buf` is overwritten; returns the serialised tag
    fn seal_in_place(&mut self, buf: &mut [u8], aad: &[u8]) -> Res<Vec<u8>>;
    fn export(&self, ctx: &[u8], len: usize) -> Res<Vec<u8>>;
    fn set_seq(&mut self, v: u64);
    fn seq_state(&self) -> (u64, bool);
    fn teardown_scan(self: Box<Self>, pats: &[Vec<u8>]) -> Res<Scan>;
    /// offsets at which each pattern occurs in the live context right now (nothing is dropped)
    fn peek(&self, pats: &[Vec<u8>]) -> Vec<Vec<usize>>;
    /// drops the context while the current thread is unwinding from a panic
    fn drop_unwinding(self: Box<Self>);
}
pub trait Receiver {
    fn open(&mut self, ct: &[u8], aad: &[u8]) -> Res<Vec<u8>>;
    /// In-place detached open: tag is deserialised first (`Fail::Decode("tag", ..)` if that fails)
    fn open_in_place(&mut self, buf: &mut [u8], aad: &[u8], tag: &[u8]) -> Res<()>;
    fn export(&self, ctx: &[u8], len: usize) -> Res<Vec<u8>>;
    fn set_seq(&mut self, v: u64);
    fn seq_state(&self) -> (u64, bool);
    fn teardown_scan(self: Box<Self>, pats: &[Vec<u8>]) -> Res<Scan>;
    /// offsets at which each pattern occurs in the live context right now (nothing is dropped)
    fn peek(&self, pats: &[Vec<u8>]) -> Vec<Vec<usize>>;
    /// drops the context while the current thread is unwinding from a panic
    fn drop_unwinding(self: Box<Self>);
}

pub trait Suite: Sync {
    fn id(&self) -> SuiteId;
    /// Actual sizes reported by the library: (Npk, Nsk, Nenc, Nt)
    fn sizes(&self) -> (usize, usize, usize, usize);
    fn derive_keypair(&self, ikm: &[u8]) -> Res<(Vec<u8>, Vec<u8>)>;
    fn gen_keypair(&self, rng: &mut ScriptRng) -> Res<(Vec<u8>, Vec<u8>)>;
    fn sk_to_pk(&self, sk: &[u8]) -> Res<Vec<u8>>;
    /// from_bytes then to_bytes
    fn recode(&self, kind: Kind, b: &[u8]) -> Res<Vec<u8>>;
    /// from_bytes(b) = v; from_bytes(to_bytes(v)) == v (keys by Eq, enc/tag by bytes)
    fn roundtrip_eq(&self, kind: Kind, b: &[u8]) -> Res<bool>;
    /// from_bytes(b) then write_exact into a buffer of `buflen` bytes prefilled with 0xA5
    fn write_exact(&self, kind: Kind, b: &[u8], buflen: usize) -> Res<Vec<u8>>;
    fn setup_sender(&self, mode: &ModeS, pk_r: &[u8], info: &[u8], rng: &mut ScriptRng) -> Res<(Vec<u8>, Box<dyn Sender>)>;
    fn setup_receiver(&self, mode: &ModeR, sk_r: &[u8], enc: &[u8], info: &[u8]) -> Res<Box<dyn Receiver>>;
    fn ss_seal(&self, mode: &ModeS, pk_r: &[u8], info: &[u8], pt: &[u8], aad: &[u8], rng: &mut ScriptRng) -> Res<(Vec<u8>, Vec<u8>)>;
    /// returns (enc, ct, tag)
    /// `buf`: the caller's buffer (plaintext in; left as the library leaves it, also on failure)
    fn ss_seal_in_place(&self, mode: &ModeS, pk_r: &[u8], info: &[u8], buf: &mut Vec<u8>, aad: &[u8], rng: &mut ScriptRng) -> Res<(Vec<u8>, Vec<u8>, Vec<u8>)>;
    fn ss_open(&self, mode: &ModeR, sk_r: &[u8], enc: &[u8], info: &[u8], ct: &[u8], aad: &[u8]) -> Res<Vec<u8>>;
    /// `buf`: the caller's buffer (ciphertext in; left as the library leaves it, also on failure)
    fn ss_open_in_place(&self, mode: &ModeR, sk_r: &[u8], enc: &[u8], info: &[u8], buf: &mut Vec<u8>, aad: &[u8], tag: &[u8]) -> Res<Vec<u8>>;
    /// returns (shared secret, enc)
    fn encap(&self, pk_r: &[u8], sender: Option<(&[u8], &[u8])>, rng: &mut ScriptRng) -> Res<(Vec<u8>, Vec<u8>)>;
    fn decap(&self, sk_r: &[u8], pk_s: Option<&[u8]>, enc: &[u8]) -> Res<Vec<u8>>;
    /// encap, then drop the shared secret in an observed slot
    fn encap_scan(&self, pk_r: &[u8], sender: Option<(&[u8], &[u8])>, rng: &mut ScriptRng) -> Res<(Vec<u8>, Scan)>;
    fn decap_scan(&self, sk_r: &[u8], pk_s: Option<&[u8]>, enc: &[u8]) -> Res<(Vec<u8>, Scan)>;
}


/// Moves `v` into a slot owned by the harness, scans the slot for the patterns, runs the value's
/// destructor in place, and scans the same memory again (volatile reads).
/// Offsets (relative to the start of the value) at which each pattern occurs in a live value
pub fn peek_live<T>(v: &T, pats: &[Vec<u8>]) -> Vec<Vec<usize>> {
    let n = std::mem::size_of::<T>();
    let p = v as *const T as *const u8;
    let bytes: Vec<u8> = (0..n).map(|i| unsafe { std::ptr::read_volatile(p.add(i)) }).collect();
    pats.iter()
        .map(|q| {
            if q.is_empty() || bytes.len() < q.len() {
                vec![]
            } else {
                (0..bytes.len() - q.len() + 1).filter(|i| &bytes[*i..*i + q.len()] == &q[..]).collect()
            }
        })
        .collect()
}

pub fn scan_drop<T>(v: T, pats: &[Vec<u8>]) -> Res<Scan> {
    // The slot starts at a byte offset 0..7 from a 16-byte aligned address (as far as T's own
    // alignment allows; byte arrays such as a shared secret can sit anywhere, e.g. behind a one-byte
    // tag in a caller's struct). The offset is a function of the first pattern, so a case replays.
    #[repr(C, align(16))]
    struct Arena<T> {
        pad: [u8; 16],
        room: MaybeUninit<T>,
        tail: [u8; 16],
    }
    let mut arena = MaybeUninit::<Arena<T>>::uninit();
    let want = pats.first().map(|q| q.iter().fold(0usize, |a, b| a.wrapping_mul(31).wrapping_add(*b as usize))).unwrap_or(0) % 8;
    let al = std::mem::align_of::<T>();
    let room = unsafe { std::ptr::addr_of_mut!((*arena.as_mut_ptr()).room) } as *mut u8;
    // align-1 values start `want` bytes before the aligned field (inside the padding in front of it)
    let slot_ptr = if al == 1 { unsafe { room.sub(want) } } else { room } as *mut T;
    debug_assert!(slot_ptr as usize % al == 0);
    unsafe { std::ptr::write(slot_ptr, v) };
    struct SlotRef<T>(*mut T);
    impl<T> SlotRef<T> {
        fn as_mut_ptr(&mut self) -> *mut T {
            self.0
        }
    }
    let mut slot = SlotRef(slot_ptr);
    let n = std::mem::size_of::<T>();
    let p = slot.as_mut_ptr() as *const u8;
    let read = |p: *const u8| -> Vec<u8> { (0..n).map(|i| unsafe { std::ptr::read_volatile(p.add(i)) }).collect() };
    let before = read(p);
    crate::heapscan::arm(pats);
    let dropped = guard(|| unsafe { std::ptr::drop_in_place(slot.as_mut_ptr()) });
    let (heap_hits, heap_blocks) = crate::heapscan::disarm();
    dropped?;
    let after = read(p);
    let locate = |hay: &[u8], q: &Vec<u8>| -> Vec<usize> {
        if q.is_empty() || hay.len() < q.len() {
            return vec![];
        }
        (0..hay.len() - q.len() + 1).filter(|i| &hay[*i..*i + q.len()] == &q[..]).collect()
    };
    Ok(Scan { size: n, before: pats.iter().map(|q| locate(&before, q)).collect(), after: pats.iter().map(|q| locate(&after, q)).collect(), heap_hits, heap_blocks })
}

pub trait AeadInfo: Aead {
    const AID: AeadId;
    const SHIM: bool;
}
macro_rules! aead_info {
    ($t:ty, $id:expr, $shim:expr) => {
        impl AeadInfo for $t {
            const AID: AeadId = $id;
            const SHIM: bool = $shim;
        }
    };
}
aead_info!(AesGcm128, AeadId::Aes128, false);
aead_info!(AesGcm256, AeadId::Aes256, false);
aead_info!(ChaCha20Poly1305, AeadId::ChaCha, false);
aead_info!(ExportOnlyAead, AeadId::Export, false);
aead_info!(ShimAes128, AeadId::Aes128, true);
aead_info!(ShimAes256, AeadId::Aes256, true);
aead_info!(ShimChaCha, AeadId::ChaCha, true);

pub trait KdfInfo: Kdf {
    const KID: KdfId;
}
impl KdfInfo for HkdfSha256 {
    const KID: KdfId = KdfId::S256;
}
impl KdfInfo for HkdfSha384 {
    const KID: KdfId = KdfId::S384;
}
impl KdfInfo for HkdfSha512 {
    const KID: KdfId = KdfId::S512;
}
pub trait KemInfo: Kem {
    const MID: KemId;
}
impl KemInfo for X25519HkdfSha256 {
    const MID: KemId = KemId::X25519;
}
impl KemInfo for DhP256HkdfSha256 {
    const MID: KemId = KemId::P256;
}
impl KemInfo for DhP384HkdfSha384 {
    const MID: KemId = KemId::P384;
}
impl KemInfo for DhP521HkdfSha512 {
    const MID: KemId = KemId::P521;
}

pub struct S<A, K, M>(pub PhantomData<fn() -> (A, K, M)>);

struct SCtx<A: Aead, K: Kdf, M: Kem>(AeadCtxS<A, K, M>);
struct RCtx<A: Aead, K: Kdf, M: Kem>(AeadCtxR<A, K, M>);

impl<A: Aead + 'static, K: Kdf + 'static, M: Kem + 'static> Sender for SCtx<A, K, M> {
    fn seal(&mut self, pt: &[u8], aad: &[u8]) -> Res<Vec<u8>> {
        let aad = alias(pt, aad, true);
        gh(|| self.0.seal(pt, aad))
    }
    fn seal_in_place(&mut self, buf: &mut [u8], aad: &[u8]) -> Res<Vec<u8>> {
        // One packet buffer, header || payload (or payload || trailer): the aad and the message are
        // adjacent regions of the same allocation, split with split_at_mut, as in a real packet path.
        let mut packet = Vec::with_capacity(buf.len() + aad.len());
        let header_first = (buf.len() + aad.len()) % 2 == 0;
        let r = if header_first {
            packet.extend_from_slice(aad);
            packet.extend_from_slice(buf);
            let (a, m) = packet.split_at_mut(aad.len());
            let r = gh(|| self.0.seal_in_place_detached(m, a));
            buf.copy_from_slice(m);
            r
        } else {
            packet.extend_from_slice(buf);
            packet.extend_from_slice(aad);
            let (m, a) = packet.split_at_mut(buf.len());
            let r = gh(|| self.0.seal_in_place_detached(m, a));
            buf.copy_from_slice(m);
            r
        };
        let tag = r?;
        guard(|| tag.to_bytes().to_vec())
    }
    fn export(&self, ctx: &[u8], len: usize) -> Res<Vec<u8>> {
        // a caller's buffer is not necessarily zeroed: the result must not depend on what it held
        let mut out: Vec<u8> = (0..len).map(|i| 0xA5u8 ^ (i as u8).wrapping_mul(7)).collect();
        gh(|| self.0.export(ctx, &mut out))?;
        Ok(out)
    }
    fn set_seq(&mut self, v: u64) {
        self.0.verif_set_seq(v)
    }
    fn seq_state(&self) -> (u64, bool) {
        self.0.verif_seq_state()
    }
    fn teardown_scan(self: Box<Self>, pats: &[Vec<u8>]) -> Res<Scan> {
        scan_drop::<AeadCtxS<A, K, M>>(self.0, pats)
    }
    fn peek(&self, pats: &[Vec<u8>]) -> Vec<Vec<usize>> {
        peek_live(&self.0, pats)
    }
    fn drop_unwinding(self: Box<Self>) {
        let ctx = self.0;
        let _ = guard(move || {
            let _owned = ctx; // dropped by the unwinder
            std::panic::panic_any("simulated caller panic while a context is alive");
        });
    }
}
impl<A: Aead + 'static, K: Kdf + 'static, M: Kem + 'static> Receiver for RCtx<A, K, M> {
    fn open(&mut self, ct: &[u8], aad: &[u8]) -> Res<Vec<u8>> {
        gh(|| self.0.open(ct, aad))
    }
    fn open_in_place(&mut self, buf: &mut [u8], aad: &[u8], tag: &[u8]) -> Res<()> {
        let tag: AeadTag<A> = dec("tag", tag)?;
        // adjacent regions of one packet buffer, see seal_in_place
        let mut packet = Vec::with_capacity(buf.len() + aad.len());
        if (buf.len() + aad.len()) % 2 == 1 {
            packet.extend_from_slice(aad);
            packet.extend_from_slice(buf);
            let (a, m) = packet.split_at_mut(aad.len());
            let r = gh(|| self.0.open_in_place_detached(m, a, &tag));
            buf.copy_from_slice(m);
            r
        } else {
            packet.extend_from_slice(buf);
            packet.extend_from_slice(aad);
            let (m, a) = packet.split_at_mut(buf.len());
            let r = gh(|| self.0.open_in_place_detached(m, a, &tag));
            buf.copy_from_slice(m);
            r
        }
    }
    fn export(&self, ctx: &[u8], len: usize) -> Res<Vec<u8>> {
        // a caller's buffer is not necessarily zeroed: the result must not depend on what it held
        let mut out: Vec<u8> = (0..len).map(|i| 0xA5u8 ^ (i as u8).wrapping_mul(7)).collect();
        gh(|| self.0.export(ctx, &mut out))?;
        Ok(out)
    }
    fn set_seq(&mut self, v: u64) {
        self.0.verif_set_seq(v)
    }
    fn seq_state(&self) -> (u64, bool) {
        self.0.verif_seq_state()
    }
    fn teardown_scan(self: Box<Self>, pats: &[Vec<u8>]) -> Res<Scan> {
        scan_drop::<AeadCtxR<A, K, M>>(self.0, pats)
    }
    fn peek(&self, pats: &[Vec<u8>]) -> Vec<Vec<usize>> {
        peek_live(&self.0, pats)
    }
    fn drop_unwinding(self: Box<Self>) {
        let ctx = self.0;
        let _ = guard(move || {
            let _owned = ctx; // dropped by the unwinder
            std::panic::panic_any("simulated caller panic while a context is alive");
        });
    }
}

/// Argument aliasing: when two byte-string arguments have equal contents a caller may well pass the
/// very same buffer for both. `side` staggers it so that for a given length one peer aliases and the
/// other does not, or both do (len % 3 == 0: receiver only, 1: sender only, 2: both).
fn alias<'a>(primary: &'a [u8], other: &'a [u8], sender: bool) -> &'a [u8] {
    let on = match primary.len() % 3 {
        0 => !sender,
        1 => sender,
        _ => true,
    };
    if on && !primary.is_empty() && primary == other {
        primary
    } else {
        other
    }
}

fn bundle<'a>(kind: ModeKind, psk: &'a [u8], psk_id: &'a [u8]) -> Res<Option<PskBundle<'a>>> {
    // psk and psk_id with equal contents: one buffer for both
    let psk_id = if psk == psk_id { psk } else { psk_id };
    if kind.has_psk() {
        let b = guard(|| PskBundle::new(psk, psk_id))?.map_err(|e| Fail::Decode("psk".into(), e.into()))?;
        Ok(Some(b))
    } else {
        Ok(None)
    }
}
fn mode_s<'a, M: Kem>(m: &'a ModeS) -> Res<OpModeS<'a, M>> {
    let kind = m.kind.unwrap_or(ModeKind::Base);
    let b = bundle(kind, &m.psk, &m.psk_id)?;
    Ok(match kind {
        ModeKind::Base => OpModeS::Base,
        ModeKind::Psk => OpModeS::Psk(b.unwrap()),
        ModeKind::Auth | ModeKind::AuthPsk => {
            let sk: M::PrivateKey = dec("skS", &m.sk_s)?;
            let pk: M::PublicKey = dec("pkS", &m.pk_s)?;
            if kind == ModeKind::Auth {
                OpModeS::Auth((sk, pk))
            } else {
                OpModeS::AuthPsk((sk, pk), b.unwrap())
            }
        }
    })
}
fn mode_r<'a, M: Kem>(m: &'a ModeR) -> Res<OpModeR<'a, M>> {
    let kind = m.kind.unwrap_or(ModeKind::Base);
    let b = bundle(kind, &m.psk, &m.psk_id)?;
    Ok(match kind {
        ModeKind::Base => OpModeR::Base,
        ModeKind::Psk => OpModeR::Psk(b.unwrap()),
        ModeKind::Auth | ModeKind::AuthPsk => {
            let pk: M::PublicKey = dec("pkS", &m.pk_s)?;
            if kind == ModeKind::Auth {
                OpModeR::Auth(pk)
            } else {
                OpModeR::AuthPsk(pk, b.unwrap())
            }
        }
    })
}

fn recode_t<T: Deserializable>(what: &str, b: &[u8]) -> Res<Vec<u8>> {
    let v: T = match dec::<T>(what, b) {
        Ok(v) => v,
        Err(Fail::Decode(_, e)) => return Err(Fail::Hpke(e)),
        Err(f) => return Err(f),
    };
    guard(|| v.to_bytes().to_vec())
}
fn write_exact_t<T: Deserializable>(b: &[u8], buflen: usize) -> Res<Vec<u8>> {
    let v: T = dec::<T>("value", b)?;
    let mut buf = vec![0xA5u8; buflen];
    guard(|| v.write_exact(&mut buf))?;
    Ok(buf)
}

impl<A: AeadInfo + 'static, K: KdfInfo + 'static, M: KemInfo + 'static> Suite for S<A, K, M> {
    fn id(&self) -> SuiteId {
        SuiteId { kem: M::MID, kdf: K::KID, aead: A::AID, shim: A::SHIM }
    }
    fn sizes(&self) -> (usize, usize, usize, usize) {
        (
            <M::PublicKey as Serializable>::size(),
            <M::PrivateKey as Serializable>::size(),
            <M::EncappedKey as Serializable>::size(),
            <AeadTag<A> as Serializable>::size(),
        )
    }
    fn derive_keypair(&self, ikm: &[u8]) -> Res<(Vec<u8>, Vec<u8>)> {
        guard(|| {
            let (sk, pk) = M::derive_keypair(ikm);
            (sk.to_bytes().to_vec(), pk.to_bytes().to_vec())
        })
    }
    fn gen_keypair(&self, rng: &mut ScriptRng) -> Res<(Vec<u8>, Vec<u8>)> {
        guard(|| {
            let (sk, pk) = M::gen_keypair(rng);
            (sk.to_bytes().to_vec(), pk.to_bytes().to_vec())
        })
    }
    fn sk_to_pk(&self, sk: &[u8]) -> Res<Vec<u8>> {
        let sk: M::PrivateKey = dec("sk", sk)?;
        guard(|| M::sk_to_pk(&sk).to_bytes().to_vec())
    }
    fn recode(&self, kind: Kind, b: &[u8]) -> Res<Vec<u8>> {
        match kind {
            Kind::Pk => recode_t::<M::PublicKey>("pk", b),
            Kind::Sk => recode_t::<M::PrivateKey>("sk", b),
            Kind::Enc => recode_t::<M::EncappedKey>("enc", b),
            Kind::Tag => recode_t::<AeadTag<A>>("tag", b),
        }
    }
    fn roundtrip_eq(&self, kind: Kind, b: &[u8]) -> Res<bool> {
        match kind {
            Kind::Pk => {
                let v: M::PublicKey = dec("pk", b)?;
                let w: M::PublicKey = gh(|| M::PublicKey::from_bytes(&v.to_bytes()))?;
                guard(|| v == w)
            }
            Kind::Sk => {
                let v: M::PrivateKey = dec("sk", b)?;
                let w: M::PrivateKey = gh(|| M::PrivateKey::from_bytes(&v.to_bytes()))?;
                guard(|| v == w)
            }
            Kind::Enc => {
                let v: M::EncappedKey = dec("enc", b)?;
                let w: M::EncappedKey = gh(|| M::EncappedKey::from_bytes(&v.to_bytes()))?;
                guard(|| v.to_bytes() == w.to_bytes())
            }
            Kind::Tag => {
                let v: AeadTag<A> = dec("tag", b)?;
                let w: AeadTag<A> = gh(|| AeadTag::<A>::from_bytes(&v.to_bytes()))?;
                guard(|| v.to_bytes() == w.to_bytes())
            }
        }
    }
    fn write_exact(&self, kind: Kind, b: &[u8], buflen: usize) -> Res<Vec<u8>> {
        match kind {
            Kind::Pk => write_exact_t::<M::PublicKey>(b, buflen),
            Kind::Sk => write_exact_t::<M::PrivateKey>(b, buflen),
            Kind::Enc => write_exact_t::<M::EncappedKey>(b, buflen),
            Kind::Tag => write_exact_t::<AeadTag<A>>(b, buflen),
        }
    }
    fn setup_sender(&self, mode: &ModeS, pk_r: &[u8], info: &[u8], rng: &mut ScriptRng) -> Res<(Vec<u8>, Box<dyn Sender>)> {
        let info = alias(&mode.psk, alias(&mode.psk_id, info, true), true);
        let mode = mode_s::<M>(mode)?;
        let pk_r = cached::<M::PublicKey>("pkR", pk_r)?;
        let pk_r: &M::PublicKey = &pk_r;
        let (enc, ctx) = gh(|| hpke::setup_sender::<A, K, M, _>(&mode, &pk_r, info, rng))?;
        let enc = guard(|| enc.to_bytes().to_vec())?;
        Ok((enc, Box::new(SCtx(ctx))))
    }
    fn setup_receiver(&self, mode: &ModeR, sk_r: &[u8], enc: &[u8], info: &[u8]) -> Res<Box<dyn Receiver>> {
        let info = alias(&mode.psk, alias(&mode.psk_id, info, false), false);
        let mode = mode_r::<M>(mode)?;
        let sk_r = cached::<M::PrivateKey>("skR", sk_r)?;
        let sk_r: &M::PrivateKey = &sk_r;
        let enc: M::EncappedKey = dec("enc", enc)?;
        let ctx = gh(|| hpke::setup_receiver::<A, K, M>(&mode, &sk_r, &enc, info))?;
        Ok(Box::new(RCtx(ctx)))
    }
    fn ss_seal(&self, mode: &ModeS, pk_r: &[u8], info: &[u8], pt: &[u8], aad: &[u8], rng: &mut ScriptRng) -> Res<(Vec<u8>, Vec<u8>)> {
        let info = alias(&mode.psk, alias(&mode.psk_id, info, true), true);
        let aad = alias(pt, alias(info, aad, true), true);
        let mode = mode_s::<M>(mode)?;
        let pk_r = cached::<M::PublicKey>("pkR", pk_r)?;
        let pk_r: &M::PublicKey = &pk_r;
        let (enc, ct) = gh(|| hpke::single_shot_seal::<A, K, M, _>(&mode, &pk_r, info, pt, aad, rng))?;
        Ok((guard(|| enc.to_bytes().to_vec())?, ct))
    }
    fn ss_seal_in_place(&self, mode: &ModeS, pk_r: &[u8], info: &[u8], buf: &mut Vec<u8>, aad: &[u8], rng: &mut ScriptRng) -> Res<(Vec<u8>, Vec<u8>, Vec<u8>)> {
        let info = alias(&mode.psk, alias(&mode.psk_id, info, true), true);
        let aad = alias(info, aad, true);
        let mode = mode_s::<M>(mode)?;
        let pk_r = cached::<M::PublicKey>("pkR", pk_r)?;
        let pk_r: &M::PublicKey = &pk_r;
        let (enc, tag) = gh(|| hpke::single_shot_seal_in_place_detached::<A, K, M, _>(&mode, &pk_r, info, &mut buf[..], aad, rng))?;
        Ok((guard(|| enc.to_bytes().to_vec())?, buf.clone(), guard(|| tag.to_bytes().to_vec())?))
    }
    fn ss_open(&self, mode: &ModeR, sk_r: &[u8], enc: &[u8], info: &[u8], ct: &[u8], aad: &[u8]) -> Res<Vec<u8>> {
        let info = alias(&mode.psk, alias(&mode.psk_id, info, false), false);
        let aad = alias(info, aad, false);
        let mode = mode_r::<M>(mode)?;
        let sk_r = cached::<M::PrivateKey>("skR", sk_r)?;
        let sk_r: &M::PrivateKey = &sk_r;
        let enc: M::EncappedKey = dec("enc", enc)?;
        gh(|| hpke::single_shot_open::<A, K, M>(&mode, &sk_r, &enc, info, ct, aad))
    }
    fn ss_open_in_place(&self, mode: &ModeR, sk_r: &[u8], enc: &[u8], info: &[u8], buf: &mut Vec<u8>, aad: &[u8], tag: &[u8]) -> Res<Vec<u8>> {
        let mode = mode_r::<M>(mode)?;
        let sk_r = cached::<M::PrivateKey>("skR", sk_r)?;
        let sk_r: &M::PrivateKey = &sk_r;
        let enc: M::EncappedKey = dec("enc", enc)?;
        let tag: AeadTag<A> = dec("tag", tag)?;
        gh(|| hpke::single_shot_open_in_place_detached::<A, K, M>(&mode, &sk_r, &enc, info, &mut buf[..], aad, &tag))?;
        Ok(buf.clone())
    }
    fn encap(&self, pk_r: &[u8], sender: Option<(&[u8], &[u8])>, rng: &mut ScriptRng) -> Res<(Vec<u8>, Vec<u8>)> {
        let pk_r = cached::<M::PublicKey>("pkR", pk_r)?;
        let pk_r: &M::PublicKey = &pk_r;
        let sender: Option<(M::PrivateKey, M::PublicKey)> = match sender {
            Some((sk, pk)) => Some((dec("skS", sk)?, dec("pkS", pk)?)),
            None => None,
        };
        let (ss, enc) = gh(|| M::encap(&pk_r, sender.as_ref().map(|(a, b)| (a, b)), rng))?;
        Ok((ss.0.to_vec(), guard(|| enc.to_bytes().to_vec())?))
    }
    fn decap(&self, sk_r: &[u8], pk_s: Option<&[u8]>, enc: &[u8]) -> Res<Vec<u8>> {
        let sk_r = cached::<M::PrivateKey>("skR", sk_r)?;
        let sk_r: &M::PrivateKey = &sk_r;
        let pk_s: Option<M::PublicKey> = match pk_s {
            Some(b) => Some(dec("pkS", b)?),
            None => None,
        };
        let enc: M::EncappedKey = dec("enc", enc)?;
        let ss = gh(|| M::decap(&sk_r, pk_s.as_ref(), &enc))?;
        Ok(ss.0.to_vec())
    }
    fn encap_scan(&self, pk_r: &[u8], sender: Option<(&[u8], &[u8])>, rng: &mut ScriptRng) -> Res<(Vec<u8>, Scan)> {
        let pk_r = cached::<M::PublicKey>("pkR", pk_r)?;
        let pk_r: &M::PublicKey = &pk_r;
        let sender: Option<(M::PrivateKey, M::PublicKey)> = match sender {
            Some((sk, pk)) => Some((dec("skS", sk)?, dec("pkS", pk)?)),
            None => None,
        };
        let (ss, _enc) = gh(|| M::encap(&pk_r, sender.as_ref().map(|(a, b)| (a, b)), rng))?;
        let bytes = ss.0.to_vec();
        let scan = scan_drop(ss, &[bytes.clone()])?;
        Ok((bytes, scan))
    }
    fn decap_scan(&self, sk_r: &[u8], pk_s: Option<&[u8]>, enc: &[u8]) -> Res<(Vec<u8>, Scan)> {
        let sk_r = cached::<M::PrivateKey>("skR", sk_r)?;
        let sk_r: &M::PrivateKey = &sk_r;
        let pk_s: Option<M::PublicKey> = match pk_s {
            Some(b) => Some(dec("pkS", b)?),
            None => None,
        };
        let enc: M::EncappedKey = dec("enc", enc)?;
        let ss = gh(|| M::decap(&sk_r, pk_s.as_ref(), &enc))?;
        let bytes = ss.0.to_vec();
        let scan = scan_drop(ss, &[bytes.clone()])?;
        Ok((bytes, scan))
    }
}

/// Registry entry for one KEM: instantiated in the per-KEM crates (dyn-x25519, dyn-p256, ...) so
/// that the expensive monomorphisation compiles in parallel.
#[macro_export]
macro_rules! suites_for_kem {
    ($M:ty) => {
        use hpke::aead::{AesGcm128, AesGcm256, ChaCha20Poly1305, ExportOnlyAead};
        use hpke::kdf::{HkdfSha256, HkdfSha384, HkdfSha512};
        use hpke_dyn::shim::{ShimAes128, ShimAes256, ShimChaCha};
        use hpke_dyn::suites::{AeadId, KdfId, Suite, S};
        macro_rules! by_kdf {
            ($kdf:expr, $A:ty) => {
                match $kdf {
                    KdfId::S256 => &S::<$A, HkdfSha256, $M>(std::marker::PhantomData) as &'static dyn Suite,
                    KdfId::S384 => &S::<$A, HkdfSha384, $M>(std::marker::PhantomData) as &'static dyn Suite,
                    KdfId::S512 => &S::<$A, HkdfSha512, $M>(std::marker::PhantomData) as &'static dyn Suite,
                }
            };
        }
        #[inline(never)]
        pub fn get(kdf: KdfId, aead: AeadId, shim: bool) -> &'static dyn Suite {
            match (aead, shim) {
                (AeadId::Aes128, false) => by_kdf!(kdf, AesGcm128),
                (AeadId::Aes256, false) => by_kdf!(kdf, AesGcm256),
                (AeadId::ChaCha, false) => by_kdf!(kdf, ChaCha20Poly1305),
                (AeadId::Export, _) => by_kdf!(kdf, ExportOnlyAead),
                (AeadId::Aes128, true) => by_kdf!(kdf, ShimAes128),
                (AeadId::Aes256, true) => by_kdf!(kdf, ShimAes256),
                (AeadId::ChaCha, true) => by_kdf!(kdf, ShimChaCha),
            }
        }
    };
}
