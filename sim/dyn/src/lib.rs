//! Type-erased access to every suite instantiation of the real `hpke` crate (suites.rs) and the
//! recording / fault-injecting AEAD shim plus scripted RNG (shim.rs). Kept in its own crate so the
//! expensive monomorphisation is rebuilt only when /repo changes.
pub mod heapscan;
pub mod shim;
pub mod suites;
