//! Recording / fault-injecting AEAD shim. Implements the public trait `hpke::aead::Aead` with the
//! *same* `AEAD_ID` as the wrapped RustCrypto cipher, so the key schedule of a shimmed suite is
//! byte-identical to the un-shimmed one. All code of `hpke` stays real; only the primitive is
//! wrapped. State is thread-local: a simulated world lives on one thread.

use aead::{AeadCore, AeadInPlace, Key, KeyInit, KeySizeUser, Nonce, Tag};
use std::cell::RefCell;

#[derive(Clone, Debug, PartialEq, Eq)]
pub enum ShimOp {
    NewKey(Vec<u8>),
    Encrypt { nonce: Vec<u8>, aad_len: usize, buf_len: usize, injected_failure: bool },
    Decrypt { nonce: Vec<u8>, aad_len: usize, buf_len: usize, ok: bool },
}

#[derive(Default)]
pub struct ShimState {
    pub log: Vec<ShimOp>,
    /// When set, the next `encrypt_in_place_detached` returns `Err` without touching the cipher
    pub fail_next_encrypt: bool,
    /// When set, the next `decrypt_in_place_detached` returns `Err` without touching cipher or buffer
    pub fail_next_decrypt: bool,
    pub recording: bool,
}

thread_local! {
    pub static SHIM: RefCell<ShimState> = RefCell::new(ShimState::default());
}

type YieldHook = Box<dyn FnMut(&'static str)>;
thread_local! {
    static YIELD: RefCell<Option<YieldHook>> = RefCell::new(None);
}

/// Install (or remove) this thread's preemption hook. The seams at which the library calls out of
/// itself - the caller's RNG, the AEAD primitive of a shimmed suite - are the simulator's scheduling
/// points *inside* a library call: the hook may run operations of other sessions (on other threads
/// or re-entrantly on this one) before the call continues.
pub fn set_yield_hook(h: Option<YieldHook>) {
    YIELD.with(|y| *y.borrow_mut() = h);
}

pub fn seam_yield(site: &'static str) {
    // the hook is taken out while it runs: operations nested inside it do not yield again
    let h = YIELD.with(|y| y.borrow_mut().take());
    if let Some(mut h) = h {
        // the shim's own bookkeeping belongs to the operation that is suspended here
        let saved = SHIM.with(|s| std::mem::take(&mut *s.borrow_mut()));
        h(site);
        SHIM.with(|s| *s.borrow_mut() = saved);
        YIELD.with(|y| *y.borrow_mut() = Some(h));
    }
}

pub fn take_log() -> Vec<ShimOp> {
    SHIM.with(|s| std::mem::take(&mut s.borrow_mut().log))
}
pub fn set_recording(on: bool) {
    SHIM.with(|s| {
        let mut s = s.borrow_mut();
        s.recording = on;
        s.log.clear();
        s.fail_next_encrypt = false;
        s.fail_next_decrypt = false;
    })
}
pub fn arm_failure() {
    SHIM.with(|s| s.borrow_mut().fail_next_encrypt = true)
}
pub fn arm_decrypt_failure() {
    SHIM.with(|s| s.borrow_mut().fail_next_decrypt = true)
}
/// true if the armed failure was still pending (the primitive was not called)
pub fn disarm_decrypt_failure() -> bool {
    SHIM.with(|s| std::mem::replace(&mut s.borrow_mut().fail_next_decrypt, false))
}
pub fn disarm_failure() -> bool {
    SHIM.with(|s| std::mem::replace(&mut s.borrow_mut().fail_next_encrypt, false))
}

#[derive(Clone)]
pub struct ShimImpl<C>(C);

impl<C: AeadCore> AeadCore for ShimImpl<C> {
    type NonceSize = C::NonceSize;
    type TagSize = C::TagSize;
    type CiphertextOverhead = C::CiphertextOverhead;
}

impl<C: KeySizeUser> KeySizeUser for ShimImpl<C> {
    type KeySize = C::KeySize;
}

impl<C: KeyInit> KeyInit for ShimImpl<C> {
    fn new(key: &Key<Self>) -> Self {
        SHIM.with(|s| {
            let mut s = s.borrow_mut();
            if s.recording {
                s.log.push(ShimOp::NewKey(key.to_vec()));
            }
        });
        ShimImpl(C::new(key))
    }
}

impl<C: AeadInPlace> AeadInPlace for ShimImpl<C> {
    fn encrypt_in_place_detached(
        &self,
        nonce: &Nonce<Self>,
        associated_data: &[u8],
        buffer: &mut [u8],
    ) -> aead::Result<Tag<Self>> {
        seam_yield("aead_encrypt");
        let fail = SHIM.with(|s| {
            let mut s = s.borrow_mut();
            let fail = std::mem::replace(&mut s.fail_next_encrypt, false);
            if s.recording {
                s.log.push(ShimOp::Encrypt {
                    nonce: nonce.to_vec(),
                    aad_len: associated_data.len(),
                    buf_len: buffer.len(),
                    injected_failure: fail,
                });
            }
            fail
        });
        if fail {
            return Err(aead::Error);
        }
        self.0.encrypt_in_place_detached(nonce, associated_data, buffer)
    }

    fn decrypt_in_place_detached(
        &self,
        nonce: &Nonce<Self>,
        associated_data: &[u8],
        buffer: &mut [u8],
        tag: &Tag<Self>,
    ) -> aead::Result<()> {
        seam_yield("aead_decrypt");
        if SHIM.with(|s| std::mem::replace(&mut s.borrow_mut().fail_next_decrypt, false)) {
            return Err(aead::Error);
        }
        let r = self.0.decrypt_in_place_detached(nonce, associated_data, buffer, tag);
        SHIM.with(|s| {
            let mut s = s.borrow_mut();
            if s.recording {
                s.log.push(ShimOp::Decrypt {
                    nonce: nonce.to_vec(),
                    aad_len: associated_data.len(),
                    buf_len: buffer.len(),
                    ok: r.is_ok(),
                });
            }
        });
        r
    }
}

pub struct ShimAes128;
impl hpke::aead::Aead for ShimAes128 {
    type AeadImpl = ShimImpl<aes_gcm::Aes128Gcm>;
    const AEAD_ID: u16 = 0x0001;
}
pub struct ShimAes256;
impl hpke::aead::Aead for ShimAes256 {
    type AeadImpl = ShimImpl<aes_gcm::Aes256Gcm>;
    const AEAD_ID: u16 = 0x0002;
}
pub struct ShimChaCha;
impl hpke::aead::Aead for ShimChaCha {
    type AeadImpl = ShimImpl<chacha20poly1305::ChaCha20Poly1305>;
    const AEAD_ID: u16 = 0x0003;
}

// ------------------------------------------------------------------------------------------------
// Scripted RNG: the caller-supplied randomness seam. Serves the script bytes in order, then zeros;
// records every draw.

use hpke::rand_core::{CryptoRng, RngCore};

#[derive(Clone, Debug, PartialEq, Eq)]
pub enum Draw {
    U32,
    U64,
    Fill(usize),
}

pub struct ScriptRng {
    script: Vec<u8>,
    pos: usize,
    pub draws: Vec<Draw>,
}

impl ScriptRng {
    pub fn new(script: &[u8]) -> ScriptRng {
        ScriptRng { script: script.to_vec(), pos: 0, draws: Vec::new() }
    }
    fn take(&mut self, out: &mut [u8]) {
        for b in out.iter_mut() {
            *b = if self.pos < self.script.len() { self.script[self.pos] } else { 0 };
            self.pos += 1;
        }
    }
    pub fn total_bytes(&self) -> usize {
        self.pos
    }
}

impl RngCore for ScriptRng {
    fn next_u32(&mut self) -> u32 {
        seam_yield("rng");
        let mut b = [0u8; 4];
        self.take(&mut b);
        self.draws.push(Draw::U32);
        u32::from_le_bytes(b)
    }
    fn next_u64(&mut self) -> u64 {
        seam_yield("rng");
        let mut b = [0u8; 8];
        self.take(&mut b);
        self.draws.push(Draw::U64);
        u64::from_le_bytes(b)
    }
    fn fill_bytes(&mut self, dst: &mut [u8]) {
        // preemption point in the middle of the draw: half the bytes are out when others run
        let h = dst.len() / 2;
        self.take(&mut dst[..h]);
        seam_yield("rng");
        self.take(&mut dst[h..]);
        self.draws.push(Draw::Fill(dst.len()));
    }
}
impl CryptoRng for ScriptRng {}
