//! Suite instantiations for one KEM (see hpke_dyn::suites_for_kem)
hpke_dyn::suites_for_kem!(hpke::kem::DhP384HkdfSha384);
