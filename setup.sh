#!/bin/bash
# MANIFEST.setup_cmd: offline build of the simulator and model self-tests
set -e
export CARGO_NET_OFFLINE=true
cd /verif/sim && cargo build --release --offline
( cd /verif/sim && CARGO_TARGET_DIR=/verif/sim/target-plain cargo build --profile plain --offline )
/verif/sim/target/release/hpke-sim selftest
for d in /verif/c17 /verif/c18; do
  if [ -x $d/setup.sh ]; then $d/setup.sh; fi
done
# determinism proof (light): per-run log hashes with 16, 1, 16 and 5 workers must agree
/verif/selftest_determinism.sh 300
echo "setup ok"
