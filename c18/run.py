#!/usr/bin/env python3
"""C18 driver: (1) compile-time Send/Sync assertions, (2) token-passing simulation (hpke-sim run C18),
(3) truly concurrent shared-reference exports compared with sequential results, (4, thorough) the same
scenario under Miri's seeded scheduler.   usage: run.py quick|thorough | --replay <file>"""
import json, os, re, subprocess, sys, time
ENV = dict(os.environ, CARGO_NET_OFFLINE="true")
SEED = os.environ.get("VERIF_SEED", "1")
CONC = "/verif/c18/conc"
SIM = "/verif/sim"
EVID = "/verif/evidence/C18.json"

def sh(cmd, cwd, env=None, timeout=7200):
    p = subprocess.run(cmd, shell=True, cwd=cwd, env=env or ENV, capture_output=True, text=True, timeout=timeout)
    return p.returncode, p.stdout + p.stderr

def violation(kind, detail, extra=None):
    os.makedirs("/verif/replays/C18", exist_ok=True)
    path = f"/verif/replays/C18/{kind}.json"
    d = {"engine": "c18-" + kind, "property": "C18", "detail": detail[-4000:], "seed": SEED}
    d.update(extra or {})
    json.dump(d, open(path, "w"), indent=1)
    print(detail[-2500:])
    print(f"VIOLATION property=C18 replay={path}")
    return path

def sendsync():
    rc, out = sh("cargo build --release --offline", CONC)
    if rc == 0:
        return None
    if re.search(r"cannot be (sent|shared) between threads safely|the trait `S(end|ync)` is not implemented|`S(end|ync)` is not satisfied", out):
        return ("viol", out)
    return ("err", out)

def conc(rounds, threads):
    rc, out = sh(f"{CONC}/target/release/c18conc {SEED} {rounds} {threads}", CONC)
    return rc, out

STACK_KIB = 64

def stackprobe():
    """the same fixed transcript on an 8 MiB-stack thread and on a small-stack thread: same digest, and the
    process survives (the unchanged library needs less than a quarter of the small stack in this build)"""
    rc1, out1 = sh(f"{SIM}/target/release/hpke-sim stackprobe 8192", SIM)
    rc2, out2 = sh(f"{SIM}/target/release/hpke-sim stackprobe {STACK_KIB}", SIM)
    d1 = re.search(r"digest=([0-9a-f]+)", out1)
    d2 = re.search(r"digest=([0-9a-f]+)", out2)
    if rc1 != 0 or not d1:
        return ("err", f"stackprobe on a large stack failed rc={rc1}: {out1[-1500:]}")
    if rc2 != 0 or not d2:
        return ("viol", f"the transcript that completes on an 8 MiB-stack thread (digest {d1.group(1)}) kills the process on a thread with a {STACK_KIB} KiB stack (exit status {rc2}):\n{out2[-1500:]}")
    if d1.group(1) != d2.group(1):
        return ("viol", f"transcript digest depends on the thread: {d1.group(1)} on an 8 MiB stack, {d2.group(1)} on a {STACK_KIB} KiB stack")
    return None

def miri(seeds, rounds, threads):
    e = dict(ENV, MIRIFLAGS=f"-Zmiri-many-seeds=0..{seeds} -Zmiri-preemption-rate=0.1")
    return sh(f"cargo +nightly miri run --offline -- {SEED} {rounds} {threads}", CONC, e, timeout=6 * 3600)

def augment(extra, violations=None, write_min=False, tier="quick"):
    try:
        ev = json.load(open(EVID))
    except Exception:
        ev = {"property_id": "C18", "tier": tier, "seed": int(SEED), "level": "exploration", "wall_s": 0.0,
              "coverage": {"evaluations": 1, "distinct_nontrivial": 2, "rule": "simulation did not run", "samples": ["-"]}}
    ev["coverage"].update(extra)
    if violations is not None:
        ev["violations"] = violations
    json.dump(ev, open(EVID, "w"), indent=1)

def run(tier):
    t0 = time.time()
    if os.path.exists(EVID): os.remove(EVID)
    r = sendsync()
    if r is not None:
        kind, out = r
        if kind == "viol":
            violation("sendsync", "a public type is no longer Send + Sync (compile-time assertion in /verif/c18/conc failed):\n" + out)
            augment({"sendsync_assertions": "FAILED"}, 1, tier=tier)
            return 1
        print("HARNESS ERROR: /verif/c18/conc does not build:\n" + out[-3000:]); return 2
    rc, out = sh("cargo build --release --offline", SIM)
    if rc != 0:
        print("HARNESS ERROR: simulator does not build:\n" + out[-3000:]); return 2
    p = subprocess.run([SIM + "/target/release/hpke-sim", "run", "C18", "--tier", tier, "--seed", SEED], cwd=SIM)
    if p.returncode == 2: return 2
    sim_rc = p.returncode
    r = stackprobe()
    if r is not None:
        kind, out = r
        if kind == "viol":
            violation("stack", out, {"stack_kib": STACK_KIB})
            augment({"small_stack_thread": "FAILED"}, 1, tier=tier)
            return 1
        print("HARNESS ERROR: " + out); return 2
    rounds = 2000 if tier == "thorough" else 300
    rc, out = conc(rounds, 4)
    extra = {"sendsync_assertions": "compiled: AeadCtxS/R, AeadTag for 48 suites; public/private/encapsulated keys, OpModeS/R for 4 KEMs; PskBundle; HpkeError",
             "concurrent_export_rounds": rounds, "concurrent_threads": 8,
             "small_stack_thread": f"fixed transcript (4 KEMs x 4 suites, AuthPsk, 700-byte info/aad/exporter context, exports up to 255*Nh) completes with the same digest on a {STACK_KIB} KiB-stack thread as on an 8 MiB one; assumption: {STACK_KIB} KiB is 4x what the unchanged library needs in this build (it completes on the 16 KiB minimum)",
             "concurrent_note": "uncontrolled OS interleaving: a mismatch cannot be a false alarm (results are schedule-independent if the property holds) but may need repetitions to reproduce; the deterministic, replayable part is the token-passing simulation and Miri"}
    if rc != 0:
        violation("conc", "concurrent exports / sessions differ from their sequential results:\n" + out, {"rounds": rounds, "threads": 4})
        augment(extra, 1, tier=tier); return 1
    print(out.strip())
    if tier == "thorough":
        seeds = 8
        rc, out = miri(seeds, 1, 2)
        extra["miri_seeds"] = seeds
        extra["miri_result"] = "ok" if rc == 0 else "failed"
        if rc != 0:
            if "MISMATCH" in out or "Undefined Behavior" in out or "data race" in out.lower():
                violation("miri", "Miri: " + out, {"miri_seeds": seeds}); augment(extra, 1, tier=tier); return 1
            print("HARNESS ERROR: miri run failed:\n" + out[-3000:]); return 2
        print(f"miri ok ({seeds} seeds)")
    augment(extra, None, tier=tier)
    if sim_rc == 0:
        print(f"OK property=C18 (sendsync + simulation + concurrent exports{' + miri' if tier == 'thorough' else ''}) wall={time.time() - t0:.0f}s")
    return sim_rc

def replay(path):
    d = json.load(open(path))
    eng = d.get("engine", "")
    if eng == "c18-sendsync":
        r = sendsync()
        if r and r[0] == "viol":
            print(r[1][-2000:]); print(f"VIOLATION property=C18 replay={path}"); return 1
        print("replay did not reproduce"); return 0
    if eng == "c18-stack":
        rc, out = sh("cargo build --release --offline", SIM)
        if rc != 0: return 2
        r = stackprobe()
        if r and r[0] == "viol":
            print(r[1][-2000:]); print(f"VIOLATION property=C18 replay={path}"); return 1
        print("replay did not reproduce"); return 0
    if eng == "c18-conc":
        if sendsync() is not None: return 2
        for _ in range(5):
            rc, out = conc(d.get("rounds", 300), d.get("threads", 4))
            if rc != 0:
                print(out[-2000:]); print(f"VIOLATION property=C18 replay={path}"); return 1
        print("replay did not reproduce in 5 attempts"); return 0
    if eng == "c18-miri":
        rc, out = miri(d.get("miri_seeds", 8), 1, 2)
        if rc != 0:
            print(out[-2000:]); print(f"VIOLATION property=C18 replay={path}"); return 1
        print("replay did not reproduce"); return 0
    return 2

if __name__ == "__main__":
    if len(sys.argv) >= 3 and sys.argv[1] == "--replay":
        sys.exit(replay(sys.argv[2]))
    sys.exit(run(sys.argv[1] if len(sys.argv) > 1 else "quick"))
