//! C18, compile-time and truly-concurrent part.
//!
//! 1. `assert_send_sync` over contexts, keys, encapsulated keys, tags, bundles, modes and errors of
//!    every suite: if one of them stops being Send/Sync this crate does not compile, and the driver
//!    reports that as a violation with the compiler's message.
//! 2. Scenario: several threads export concurrently through `&ctx` from one shared sender and one
//!    shared receiver context while other threads seal/open on distinct contexts; every result must
//!    equal the one computed sequentially beforehand. Under Miri (`cargo +nightly miri run`, seeded
//!    scheduler, data-race detector) the same scenario is replayable by Miri seed.
//!
//! argv: <seed> <rounds> <threads>

use hpke::aead::{AeadCtxR, AeadCtxS, AeadTag, AesGcm128, AesGcm256, ChaCha20Poly1305, ExportOnlyAead};
use hpke::kdf::{HkdfSha256, HkdfSha384, HkdfSha512};
use hpke::kem::{DhP256HkdfSha256, DhP384HkdfSha384, DhP521HkdfSha512, X25519HkdfSha256};
use hpke::rand_core::{CryptoRng, RngCore};
use hpke::{HpkeError, Kem, OpModeR, OpModeS, PskBundle};
use std::sync::{Arc, Barrier};

fn assert_send_sync<T: Send + Sync>() {}

macro_rules! assert_suite {
    ($A:ty, $K:ty, $M:ty) => {
        assert_send_sync::<AeadCtxS<$A, $K, $M>>();
        assert_send_sync::<AeadCtxR<$A, $K, $M>>();
        assert_send_sync::<AeadTag<$A>>();
    };
}
macro_rules! assert_kem {
    ($M:ty) => {
        assert_send_sync::<<$M as Kem>::PublicKey>();
        assert_send_sync::<<$M as Kem>::PrivateKey>();
        assert_send_sync::<<$M as Kem>::EncappedKey>();
        assert_send_sync::<OpModeS<'static, $M>>();
        assert_send_sync::<OpModeR<'static, $M>>();
        assert_suite!(AesGcm128, HkdfSha256, $M);
        assert_suite!(AesGcm256, HkdfSha256, $M);
        assert_suite!(ChaCha20Poly1305, HkdfSha256, $M);
        assert_suite!(ExportOnlyAead, HkdfSha256, $M);
        assert_suite!(AesGcm128, HkdfSha384, $M);
        assert_suite!(AesGcm256, HkdfSha384, $M);
        assert_suite!(ChaCha20Poly1305, HkdfSha384, $M);
        assert_suite!(ExportOnlyAead, HkdfSha384, $M);
        assert_suite!(AesGcm128, HkdfSha512, $M);
        assert_suite!(AesGcm256, HkdfSha512, $M);
        assert_suite!(ChaCha20Poly1305, HkdfSha512, $M);
        assert_suite!(ExportOnlyAead, HkdfSha512, $M);
    };
}
#[allow(dead_code)]
fn compile_time_assertions() {
    assert_kem!(X25519HkdfSha256);
    assert_kem!(DhP256HkdfSha256);
    assert_kem!(DhP384HkdfSha384);
    assert_kem!(DhP521HkdfSha512);
    assert_send_sync::<PskBundle<'static>>();
    assert_send_sync::<HpkeError>();
}

struct DetRng(u64);
impl RngCore for DetRng {
    fn next_u32(&mut self) -> u32 {
        self.next_u64() as u32
    }
    fn next_u64(&mut self) -> u64 {
        self.0 = self.0.wrapping_add(0x9E37_79B9_7F4A_7C15);
        let mut z = self.0;
        z = (z ^ (z >> 30)).wrapping_mul(0xBF58_476D_1CE4_E5B9);
        z = (z ^ (z >> 27)).wrapping_mul(0x94D0_49BB_1331_11EB);
        z ^ (z >> 31)
    }
    fn fill_bytes(&mut self, dst: &mut [u8]) {
        for c in dst.chunks_mut(8) {
            let v = self.next_u64().to_le_bytes();
            c.copy_from_slice(&v[..c.len()]);
        }
    }
}
impl CryptoRng for DetRng {}

type A = ChaCha20Poly1305;
type K = HkdfSha256;
type M = X25519HkdfSha256;

fn make(seed: u64) -> (AeadCtxS<A, K, M>, AeadCtxR<A, K, M>) {
    let mut ikm = [0u8; 32];
    DetRng(seed).fill_bytes(&mut ikm);
    let (sk, pk) = M::derive_keypair(&ikm);
    let mut rng = DetRng(seed ^ 0xABCD);
    let (enc, s) = hpke::setup_sender::<A, K, M, _>(&OpModeS::Base, &pk, b"c18", &mut rng).unwrap();
    let r = hpke::setup_receiver::<A, K, M>(&OpModeR::Base, &sk, &enc, b"c18").unwrap();
    (s, r)
}

/// What a session does on "its" thread: seal n messages, open them, export; returns all outputs
fn session(seed: u64, n: usize) -> Vec<Vec<u8>> {
    let (mut s, mut r) = make(seed);
    let mut out = vec![];
    for i in 0..n {
        let pt = vec![i as u8; 5 + i];
        let ct = s.seal(&pt, &[i as u8]).unwrap();
        let back = r.open(&ct, &[i as u8]).unwrap();
        assert_eq!(back, pt);
        out.push(ct);
    }
    let mut e = vec![0u8; 24];
    s.export(b"session", &mut e).unwrap();
    out.push(e);
    out
}

fn main() {
    let args: Vec<String> = std::env::args().collect();
    let seed: u64 = args.get(1).and_then(|s| s.parse().ok()).unwrap_or(1);
    let rounds: usize = args.get(2).and_then(|s| s.parse().ok()).unwrap_or(50);
    let threads: usize = args.get(3).and_then(|s| s.parse().ok()).unwrap_or(4);
    let mut compared = 0usize;
    for round in 0..rounds {
        let base = seed.wrapping_mul(1_000_003).wrapping_add(round as u64);
        // sequential reference
        let (s, r) = make(base);
        let ctxs: Vec<Vec<u8>> = (0..threads).map(|t| format!("exporter context {}", t).into_bytes()).collect();
        let lens: Vec<usize> = (0..threads).map(|t| 16 + 7 * t).collect();
        let mut want = vec![];
        for t in 0..threads {
            let mut o = vec![0u8; lens[t]];
            s.export(&ctxs[t], &mut o).unwrap();
            let mut o2 = vec![0u8; lens[t]];
            r.export(&ctxs[t], &mut o2).unwrap();
            assert_eq!(o, o2, "sender and receiver exports differ");
            want.push(o);
        }
        let want_sessions: Vec<Vec<Vec<u8>>> = (0..threads).map(|t| session(base ^ (t as u64 + 1) << 20, 3)).collect();
        // concurrent: exports through shared references + distinct sessions, all released at once
        let s = Arc::new(s);
        let r = Arc::new(r);
        let bar = Arc::new(Barrier::new(2 * threads));
        let mut hs = vec![];
        for t in 0..threads {
            let bar2 = bar.clone();
            let (s, r, bar, ctx, len) = (s.clone(), r.clone(), bar.clone(), ctxs[t].clone(), lens[t]);
            hs.push(std::thread::spawn(move || {
                bar.wait();
                let mut o = vec![0u8; len];
                if t % 2 == 0 { s.export(&ctx, &mut o).unwrap() } else { r.export(&ctx, &mut o).unwrap() };
                let mut o2 = vec![0u8; len];
                if t % 2 == 0 { r.export(&ctx, &mut o2).unwrap() } else { s.export(&ctx, &mut o2).unwrap() };
                assert_eq!(o, o2);
                vec![o]
            }));
            hs.push(std::thread::spawn(move || {
                bar2.wait();
                session(base ^ (t as u64 + 1) << 20, 3)
            }));
        }
        for (i, h) in hs.into_iter().enumerate() {
            let got = h.join().expect("thread panicked");
            let t = i / 2;
            if i % 2 == 0 {
                if got[0] != want[t] {
                    println!("MISMATCH round={} seed={} thread={} kind=export", round, seed, t);
                    std::process::exit(1);
                }
            } else if got != want_sessions[t] {
                println!("MISMATCH round={} seed={} thread={} kind=session", round, seed, t);
                std::process::exit(1);
            }
            compared += 1;
        }
    }
    println!("c18conc ok seed={} rounds={} threads={} compared={}", seed, rounds, threads, compared);
}
