#!/bin/bash
exec python3 /verif/c18/run.py "$@"
