#!/bin/bash
# Third build profile for C01: the fixed transcript in /verif/dbgprobe under an unoptimised build of
# hpke (dev profile) and under a release build; both must complete with the same digest.
# usage: run.sh [--replay <file>]   exit 0 held / 1 violation / 2 harness error
cd /verif/dbgprobe || exit 2
export CARGO_NET_OFFLINE=true
unset RUSTFLAGS
out=/verif/replays/C01/dbgprobe.json
cargo build --offline >/verif/.build-dbgprobe.log 2>&1 && cargo build --release --offline >>/verif/.build-dbgprobe.log 2>&1
if [ $? -ne 0 ]; then echo "HARNESS ERROR: dbgprobe does not build (see /verif/.build-dbgprobe.log)"; tail -20 /verif/.build-dbgprobe.log; exit 2; fi
rel=$(./target/release/dbgprobe 2>&1); rrc=$?
dbg=$(./target/debug/dbgprobe 2>&1); drc=$?
rd=$(echo "$rel" | grep -o 'digest=[0-9a-f]*'); dd=$(echo "$dbg" | grep -o 'digest=[0-9a-f]*')
if [ $rrc -ne 0 ] || [ -z "$rd" ]; then
  # the release build fails too: not a build-profile matter, the simulator checks decide it
  echo "dbgprobe: the release build of the transcript fails as well (status $rrc); left to the simulator checks"; exit 0
fi
if [ $drc -ne 0 ] || [ "$rd" != "$dd" ]; then
  mkdir -p /verif/replays/C01
  python3 - "$drc" "$rd" "$dd" "$out" <<'PY'
import json, sys
drc, rd, dd, out = sys.argv[1:5]
json.dump({"engine": "dbgprobe", "property": "C01", "detail": "fixed round-trip transcript (8 MiB info, 2 MiB psk_id, 1 MiB psk / messages / aad / exporter context): release build %s; unoptimised build exit status %s %s" % (rd, drc, dd)}, open(out, "w"), indent=1)
PY
  echo "dbgprobe: the transcript that completes under a release build of hpke ($rd) does not under an unoptimised build (exit status $drc ${dd:-no digest})"
  echo "$dbg" | tail -5
  echo "VIOLATION property=C01 replay=$out"
  exit 1
fi
echo "dbgprobe ok: unoptimised and release builds agree ($rd)"
exit 0
