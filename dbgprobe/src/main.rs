//! Third build profile for C01: a fixed round-trip transcript with long configuration strings, long
//! messages and long exporter contexts, executed on an ordinary 2 MiB-stack thread. Built twice
//! (dev: opt-level 0 with overflow checks and debug assertions; release); both runs must complete and
//! agree. Catches behaviour that exists only in unoptimised builds (recursion the optimiser would
//! flatten, debug-only assertions, frames that are large without optimisation).
use hpke::aead::{AesGcm128, ChaCha20Poly1305};
use hpke::kdf::{HkdfSha256, HkdfSha512};
use hpke::rand_core::{CryptoRng, RngCore};
use hpke::{Deserializable, Kem as KemTrait, OpModeR, OpModeS, PskBundle, Serializable};
use sha2::{Digest, Sha256};

struct DetRng(u64);
impl RngCore for DetRng {
    fn next_u32(&mut self) -> u32 {
        self.next_u64() as u32
    }
    fn next_u64(&mut self) -> u64 {
        self.0 = self.0.wrapping_add(0x9E37_79B9_7F4A_7C15);
        let mut z = self.0;
        z = (z ^ (z >> 30)).wrapping_mul(0xBF58_476D_1CE4_E5B9);
        z = (z ^ (z >> 27)).wrapping_mul(0x94D0_49BB_1331_11EB);
        z ^ (z >> 31)
    }
    fn fill_bytes(&mut self, dst: &mut [u8]) {
        for c in dst.chunks_mut(8) {
            let v = self.next_u64().to_le_bytes();
            c.copy_from_slice(&v[..c.len()]);
        }
    }
}
impl CryptoRng for DetRng {}

fn pattern(n: usize, k: u8) -> Vec<u8> {
    (0..n).map(|i| (i as u8).wrapping_mul(31).wrapping_add(k)).collect()
}

macro_rules! session {
    ($h:expr, $A:ty, $K:ty, $Kem:ty, $info:expr, $psk:expr, $psk_id:expr) => {{
        type Kem = $Kem;
        let (sk_r, pk_r) = <Kem as KemTrait>::derive_keypair(b"dbgprobe recipient");
        let (sk_s, pk_s) = <Kem as KemTrait>::derive_keypair(&pattern(3000, 1));
        let bundle = PskBundle::new($psk, $psk_id).unwrap();
        let ms = OpModeS::<Kem>::AuthPsk((sk_s, pk_s.clone()), bundle);
        let mr = OpModeR::<Kem>::AuthPsk(pk_s, bundle);
        let mut rng = DetRng(7);
        let (enc, mut s) = hpke::setup_sender::<$A, $K, Kem, _>(&ms, &pk_r, $info, &mut rng).unwrap();
        let enc = <Kem as KemTrait>::EncappedKey::from_bytes(&enc.to_bytes()).unwrap();
        let mut r = hpke::setup_receiver::<$A, $K, Kem>(&mr, &sk_r, &enc, $info).unwrap();
        $h.update(enc.to_bytes());
        for (n, a) in [(0usize, 0usize), (1, 1), (1 << 20, 1 << 20), (70001, 3)] {
            let pt = pattern(n, 2);
            let aad = pattern(a, 3);
            let ct = s.seal(&pt, &aad).unwrap();
            $h.update(&ct[ct.len().saturating_sub(64)..]);
            assert_eq!(r.open(&ct, &aad).unwrap(), pt);
            let mut buf = pt.clone();
            let tag = s.seal_in_place_detached(&mut buf, &aad).unwrap();
            r.open_in_place_detached(&mut buf, &aad, &tag).unwrap();
            assert_eq!(buf, pt);
        }
        for (c, l) in [(0usize, 32usize), (1 << 20, 8160), (300, 1)] {
            let ctx = pattern(c, 4);
            let mut a = vec![0xA5u8; l];
            let mut b = vec![0x5Au8; l];
            s.export(&ctx, &mut a).unwrap();
            r.export(&ctx, &mut b).unwrap();
            assert_eq!(a, b);
            $h.update(&a);
        }
    }};
}

fn transcript() -> String {
    let mut h = Sha256::new();
    let long_info = pattern(8 << 20, 5);
    let long_id = pattern(2 << 20, 6);
    let long_psk = pattern(1 << 20, 7);
    session!(h, ChaCha20Poly1305, HkdfSha256, hpke::kem::X25519HkdfSha256, &long_info, &long_psk, &long_id);
    session!(h, AesGcm128, HkdfSha512, hpke::kem::DhP256HkdfSha256, &long_info[..70001], &long_psk[..300], &long_id[..1]);
    session!(h, ChaCha20Poly1305, HkdfSha256, hpke::kem::DhP256HkdfSha256, b"", b"k", b"i");
    h.finalize().iter().map(|b| format!("{:02x}", b)).collect()
}

fn main() {
    // an ordinary thread (2 MiB stack), as a user's worker thread would be
    let d = std::thread::Builder::new().stack_size(2 << 20).spawn(transcript).unwrap().join();
    match d {
        Ok(d) => println!("dbgprobe ok digest={}", d),
        Err(_) => {
            println!("dbgprobe FAILED: the transcript panicked");
            std::process::exit(1);
        }
    }
}
