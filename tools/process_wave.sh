#!/bin/bash
# process_wave.sh <suffix> <Cxx> [<Cxx> ...]: run the named property's quick check against each sub-agent
# patch in /tmp/wt_<Cxx>_<suffix>/_seeded/patch.diff (scratch copy), print a compact summary.
suf=$1; shift
for p in "$@"; do
  wt=/tmp/wt_${p}_$suf
  if [ ! -f $wt/_seeded/patch.diff ]; then echo "$p-$suf: no patch"; continue; fi
  if [ "$p" = "C17" ]; then
    git -C /repo apply $wt/_seeded/patch.diff || { echo "$p-$suf: patch does not apply"; continue; }
    out=$(/verif/check C17 quick 2>&1); rc=$?
    git -C /repo checkout -- .
    echo "$p-$suf: C17 rc=$rc $(echo "$out" | grep -E '^violation:' | head -1 | cut -c1-200)"
    continue
  fi
  out=$(python3 /verif/tools/mutants.py --patch $wt/_seeded/patch.diff --prop $p 2>&1)
  echo "$p-$suf: $(echo "$out" | grep -E '^== ' | cut -c1-60) | $(echo "$out" | grep -E 'violation in run' | cut -c1-120) | $(echo "$out" | grep -E '^baseline' | grep -o '[0-9]* passed')"
  echo "$out" | grep -E "expected:|observed:" | head -2 | cut -c1-200
done
