#!/usr/bin/env python3
"""Sensitivity catalogue: deliberate property-breaking changes, applied only to a scratch copy of
/repo under /tmp/mut, each checked to (1) compile and pass the pinned 35-test baseline and (2) be
reported as a VIOLATION by the named property's quick check, whose minimised replay file must
reproduce in a fresh process.

usage: tools/mutants.py [--list] [--keep] [--all-props] [id ...]
"""
import json, os, re, subprocess, sys, time, shutil

ROOT = "/tmp/mut"
REPO = ROOT + "/repo"
SIM = ROOT + "/sim"

# (id, property, file, old, new, note)
M = []
def m(id, prop, file, old, new, note=""):
    M.append(dict(id=id, prop=prop, file=file, old=old, new=new, note=note))

A = "src/aead.rs"; S = "src/setup.rs"; K = "src/kdf.rs"; U = "src/util.rs"; D = "src/kem/dhkem.rs"
O = "src/op_mode.rs"; N = "src/dhkex/ecdh_nistp.rs"; X = "src/dhkex/x25519.rs"; SS = "src/single_shot.rs"; KM = "src/kem.rs"

# ---- C01
m("M01a", "C01", A, "buf[msg_len..msg_len + tag_len].copy_from_slice(&tag.0);",
  "if msg_len > 0 { buf[msg_len - 1..msg_len + tag_len - 1].copy_from_slice(&tag.0); } else { buf[msg_len..msg_len + tag_len].copy_from_slice(&tag.0); }",
  "seal writes the tag one byte early (non-empty messages)")
m("M01b", "C01", A, ".checked_sub(tag_len)\n            .ok_or(HpkeError::OpenError)?;",
  ".checked_sub(tag_len)\n            .ok_or(HpkeError::OpenError)?;\n        let msg_len = if msg_len == 33 { 32 } else { msg_len };",
  "open mis-splits ciphertexts whose body is exactly 33 bytes")
m("M01c", "C01", S, "labeled_extract::<Kdf>(&[], &suite_id, b\"info_hash\", info);",
  "labeled_extract::<Kdf>(&[], &suite_id, b\"info_hash\", if core::any::type_name::<O>().contains(\"OpModeR\") && info.len() == 64 { &info[..63] } else { info });",
  "receiver hashes a truncated info when it is exactly 64 bytes")
# ---- C02 (symmetric, invisible to self-consistency tests)
m("M02a", "C02", K, 'const VERSION_LABEL: &[u8] = b"HPKE-v1";', 'const VERSION_LABEL: &[u8] = b"HPKE-v2";', "version label")
m("M02b", "C02", U, "write_u16_be(&mut suite_id[6..8], Kdf::KDF_ID);\n    write_u16_be(&mut suite_id[8..10], A::AEAD_ID);",
  "write_u16_be(&mut suite_id[6..8], A::AEAD_ID);\n    write_u16_be(&mut suite_id[8..10], Kdf::KDF_ID);", "kdf/aead ids swapped in suite_id")
m("M02d", "C02", O, "OpModeR::Psk(..) => 0x01,\n            OpModeR::Auth(..) => 0x02,", "OpModeR::Psk(..) => 0x02,\n            OpModeR::Auth(..) => 0x01,", "mode bytes swapped (receiver) ...")
m("M02e", "C02", A, "write_u64_be(&mut seq_buf.0[nonce_size - seq_size..], seq.0);", "write_u64_be(&mut seq_buf.0[nonce_size - seq_size..], seq.0.swap_bytes());", "little-endian counter in nonce")
m("M02f", "C02", U, "buf[0] = ((n & 0xff00) >> 8) as u8;\n    buf[1] =  (n & 0x00ff)       as u8;", "buf[1] = ((n & 0xff00) >> 8) as u8;\n    buf[0] =  (n & 0x00ff)       as u8;", "write_u16_be little-endian")
m("M02g", "C02", S, 'labeled_extract::<Kdf>(&[], &suite_id, b"psk_id_hash", mode.get_psk_id());\n        let (info_hash, _) = labeled_extract::<Kdf>(&[], &suite_id, b"info_hash", info);',
  'labeled_extract::<Kdf>(&[], &suite_id, b"info_hash", mode.get_psk_id());\n        let (info_hash, _) = labeled_extract::<Kdf>(&[], &suite_id, b"psk_id_hash", info);', "hash labels swapped")
m("M02h", "C02", "src/aead/aes_gcm.rs", "const AEAD_ID: u16 = 0x0002;", "const AEAD_ID: u16 = 0x0004;", "AES-256-GCM id")
m("M02i", "C02", S, 'b"exp",', 'b"exp\\0",', "exporter label")
# ---- C03
m("M03a", "C03", K, 'b"eae_prk"', 'b"eae-prk"', "eae_prk typo")
m("M03b", "C03", D, [("&kex_res_eph.to_bytes(),\n                        &kex_res_identity.to_bytes()", "&kex_res_identity.to_bytes(),\n                        &kex_res_eph.to_bytes()"), ("&kex_res_eph.to_bytes(),\n                            &kex_res_identity.to_bytes()", "&kex_res_identity.to_bytes(),\n                            &kex_res_eph.to_bytes()")], None, "auth DH concat order (both sides)")
m("M03c", "C03", N, "    0x01           // RFC 9180", "    0x03           // RFC 9180", "P-521 bitmask")
m("M03d", "C03", N, '.labeled_expand(suite_id, b"candidate", &[counter], &mut buf)', '.labeled_expand(suite_id, b"candidate", &[counter.min(0)], &mut buf)', "candidate counter ignored (retry corpus only)")
m("M03e", "C03", X, '.labeled_expand(suite_id, b"sk", &[], &mut buf)', '.labeled_expand(suite_id, b"sk", &[0], &mut buf)', "X25519 sk expand info")
m("M03f", "C03", KM, "csprng.fill_bytes(&mut ikm);", "{ let half = ikm.len() / 2; csprng.fill_bytes(&mut ikm[..half]); }", "gen_keypair fills half of ikm")
# ---- C04
m("M04b", "C04", A, "seq.0.checked_add(1).map(Seq)", "Some(Seq(seq.0.wrapping_add(1)))", "counter wraps instead of latching")
m("M04c", "C04", A, "write_u64_be(&mut seq_buf.0[nonce_size - seq_size..], seq.0);", "write_u64_be(&mut seq_buf.0[nonce_size - seq_size..], seq.0 as u32 as u64);", "counter truncated to 32 bits")
m("M04d", "C04", A, "write_u64_be(&mut seq_buf.0[nonce_size - seq_size..], seq.0);", "write_u64_be(&mut seq_buf.0[..seq_size], seq.0);", "counter in the first 8 nonce bytes")
m("M04e", "C04", A, """                .encrypt_in_place_detached(&nonce.0, aad, plaintext)
                .map_err(|_| HpkeError::SealError)?;

            // Try to increment the sequence counter. If it fails, this was our last encryption.
            match increment_seq(&self.0.seq) {
                Some(new_seq) => self.0.seq = new_seq,
                None => self.0.overflowed = true,
            }""", """                .encrypt_in_place_detached(&nonce.0, aad, plaintext);

            // Try to increment the sequence counter. If it fails, this was our last encryption.
            match increment_seq(&self.0.seq) {
                Some(new_seq) => self.0.seq = new_seq,
                None => self.0.overflowed = true,
            }
            let tag = tag.map_err(|_| HpkeError::SealError)?;""", "counter advances even when the AEAD fails")
m("M04f", "C04", A, """            // Try to increment the sequence counter. If it fails, this was our last encryption.
            match increment_seq(&self.0.seq) {
                Some(new_seq) => self.0.seq = new_seq,
                None => self.0.overflowed = true,
            }""", """            // Try to increment the sequence counter. If it fails, this was our last encryption.
            match increment_seq(&self.0.seq) {
                Some(new_seq) => self.0.seq = new_seq,
                None => {}
            }""", "sender overflow never latched: nonce of 2^64-1 reused")
m("M04g", "C04", A, """        if self.0.overflowed {
            // If the sequence counter overflowed, we've been used for far too long. Shut down.
            Err(HpkeError::MessageLimitReached)""", """        if self.0.overflowed {
            // If the sequence counter overflowed, we've been used for far too long. Shut down.
            plaintext.iter_mut().for_each(|b| *b = 0);
            Err(HpkeError::MessageLimitReached)""", "buffer wiped on MessageLimitReached")
# ---- C05
m("M05a", "C05", A, """            if decrypt_res.is_err() {
                // Opening failed due to a bad tag
                return Err(HpkeError::OpenError);
            }""", """            if decrypt_res.is_err() {
                // Opening failed due to a bad tag
                if let Some(new_seq) = increment_seq(&self.0.seq) { self.0.seq = new_seq; }
                return Err(HpkeError::OpenError);
            }""", "receiver advances on failure")
m("M05c", "C05", A, ".checked_sub(tag_len)\n            .ok_or(HpkeError::OpenError)?;", ".saturating_sub(tag_len);", "short ciphertext: saturating_sub (panic in copy_from_slice)")
m("M05d", "C05", A, """        if self.0.overflowed {
            // If the sequence counter overflowed, we've been used for too long. Shut down.
            Err(HpkeError::MessageLimitReached)
        } else {
            // Compute the nonce and do the encryption in place
            let nonce = mix_nonce::<A>(&self.0.base_nonce, &self.0.seq);
            let decrypt_res""", """        if false {
            // If the sequence counter overflowed, we've been used for too long. Shut down.
            Err(HpkeError::MessageLimitReached)
        } else {
            // Compute the nonce and do the encryption in place
            let nonce = mix_nonce::<A>(&self.0.base_nonce, &self.0.seq);
            let decrypt_res""", "receiver limit check removed")
m("M05e", "C05", A, """            // Opening was a success. Try to increment the sequence counter. If it fails, this was
            // our last decryption.
            match increment_seq(&self.0.seq) {""", """            // Opening was a success. Try to increment the sequence counter. If it fails, this was
            // our last decryption.
            if ciphertext.is_empty() && aad.len() == 1 { return Ok(()); }
            match increment_seq(&self.0.seq) {""", "receiver does not advance on an empty message with 1-byte aad")
# ---- C06
m("M06a", "C06", A, [(".decrypt_in_place_detached(&nonce.0, aad, ciphertext, &tag.0);", ".decrypt_in_place_detached(&nonce.0, &aad[..aad.len().min(64)], ciphertext, &tag.0);"),
                    (".encrypt_in_place_detached(&nonce.0, aad, plaintext)", ".encrypt_in_place_detached(&nonce.0, &aad[..aad.len().min(64)], plaintext)")], None,
  "aad beyond 64 bytes not authenticated (both sides)")
m("M06b", "C06", A, "let (ciphertext, tag_slice) = ciphertext.split_at(msg_len);", "let msg_len = if msg_len > 40 { msg_len - (msg_len - 40) % 16 } else { msg_len };\n        let (ciphertext, tag_slice) = ciphertext.split_at(msg_len);\n        let tag_slice = &tag_slice[..tag_len];", "open ignores trailing bytes... (mis-split for long bodies)")
m("M06c", "C06", SS, "    aead_ctx.open(ciphertext, aad)\n", "    aead_ctx.open(ciphertext, if aad.len() == 1 { &[] } else { aad }).or_else(|e| if aad.len() == 1 { let mut c2 = setup_receiver::<A, Kdf, Kem>(mode, sk_recip, encapped_key, info)?; c2.open(ciphertext, aad) } else { Err(e) })\n", "single_shot_open accepts a 1-byte aad dropped")
# ---- C07
m("M07a", "C07", S, 'labeled_extract::<Kdf>(&[], &suite_id, b"info_hash", info);', 'labeled_extract::<Kdf>(&[], &suite_id, b"info_hash", &info[..info.len().min(48)]);', "info beyond 48 bytes ignored (both sides)")
m("M07b", "C07", S, 'labeled_extract::<Kdf>(&[], &suite_id, b"psk_id_hash", mode.get_psk_id());', 'labeled_extract::<Kdf>(&[], &suite_id, b"psk_id_hash", &[]);', "psk_id left out")
m("M07c", "C07", S, 'labeled_extract::<Kdf>(&shared_secret.0, &suite_id, b"secret", mode.get_psk_bytes());', 'labeled_extract::<Kdf>(&shared_secret.0, &suite_id, b"secret", &[]);', "psk left out")
m("M07d", "C07", S, "&[mode.mode_id()],", "&[mode.mode_id() & 0x02],", "mode byte: psk bit dropped")
m("M07e", "C07", U, "write_u16_be(&mut suite_id[8..10], A::AEAD_ID);", "write_u16_be(&mut suite_id[8..10], A::AEAD_ID.min(2));", "ChaCha20Poly1305 shares the suite id of AES-256-GCM")
m("M07f", "C07", D, """                    let (kem_context_buf, kem_context_size) = concat_with_known_maxlen!(
                        MAX_PUBKEY_SIZE,
                        &encapped_key.to_bytes(),
                        &pk_recip.to_bytes()
                    );""", """                    let (kem_context_buf, kem_context_size) = concat_with_known_maxlen!(
                        MAX_PUBKEY_SIZE,
                        &encapped_key.to_bytes(),
                        &encapped_key.to_bytes()
                    );""", "pkR left out of kem_context (base, both sides)", )
# ---- C08
m("M08a", "C08", D, None, None, "static-static DH term removed on both sides")  # special
m("M08b", "C03", D, None, None, "pkS left out of kem_context on both sides (C08 still holds: the static DH term authenticates; this is a conformance break)")  # special
# ---- C09
m("M09a", "C09", N, "enforce_equal_len(Self::OutputSize::to_usize(), encoded.len())?;\n\n                    // Now just deserialize", "// Now just deserialize", "pubkey length pre-check removed: compressed points parse")
m("M09c", "C09", N, "enforce_equal_len(Self::OutputSize::to_usize(), encoded.len())?;\n\n                    // * Invariant: PrivateKey", "enforce_equal_len(encoded.len(), Self::OutputSize::to_usize())?;\n\n                    // * Invariant: PrivateKey", "(expected, given) swapped for private keys")
m("M09d", "C09", N, ".map_err(|_| HpkeError::ValidationError)?;\n                    Ok(PublicKey(parsed))", ".map_err(|_| HpkeError::IncorrectInputLength(Self::OutputSize::to_usize(), encoded.len()))?;\n                    Ok(PublicKey(parsed))", "invalid point reported as IncorrectInputLength")
# ---- C10
m("M10a", "C10", X, "if res.as_bytes().ct_eq(&[0u8; 32]).into() {", "if res.as_bytes().ct_eq(&[0u8; 32]).into() && pk.0.as_bytes()[31] & 0x80 == 0 {", "zero check skipped when bit 255 of the point is set")
m("M10b", "C10", D, """                        let kex_res_identity = <$dhkex as DhKeyExchange>::dh(sk_recip, pk_sender_id)
                            .map_err(|_| HpkeError::DecapError)?;""", """                        let kex_res_identity = <$dhkex as DhKeyExchange>::dh(sk_recip, pk_sender_id)
                            .map_err(|_| HpkeError::EncapError)?;""", "EncapError returned from decap (second DH)")
# ---- C11
m("M11a", "C11", A, '.labeled_expand(&self.suite_id, b"sec", exporter_ctx, out_buf)', '.labeled_expand(&self.suite_id, b"exp", exporter_ctx, out_buf)', "export label")
m("M11c", "C11", A, "        let hkdf_ctx = SimpleHkdf::<Kdf>::from_prk(self.exporter_secret.0.as_slice()).unwrap();", "        if out_buf.len() >= 255 * self.exporter_secret.0.len() { return Err(HpkeError::KdfOutputTooLong); }\n        let hkdf_ctx = SimpleHkdf::<Kdf>::from_prk(self.exporter_secret.0.as_slice()).unwrap();", "off-by-one length limit at exactly 255*Nh")
m("M11d", "C11", "src/aead/export_only.rs", 'panic!("Cannot encrypt with an export-only encryption context!");', "Err(aead::Error)", "export-only seal returns an error instead of panicking")
# ---- C12
m("M12b", "C12", U, "if given_len != expected_len {", "if given_len < expected_len {", "'<' in enforce_equal_len (longer inputs pass; copy panics or truncates)")
m("M12c", "C12", A, "enforce_equal_len(Self::size(), encoded.len())?;", "enforce_equal_len(encoded.len(), Self::size())?;", "swapped error payload for tags")
m("M12d", "C12", A, "        enforce_outbuf_len::<Self>(buf);\n\n        buf.copy_from_slice(&self.0);", "        if buf.len() < Self::size() { enforce_outbuf_len::<Self>(buf); }\n\n        buf[..Self::size()].copy_from_slice(&self.0);", "tag write_exact accepts a longer buffer")
# ---- C13
m("M13a", "C13", A, ".checked_sub(tag_len)\n            .ok_or(HpkeError::OpenError)?;", ".wrapping_sub(tag_len);", "len - tag_len unchecked")
m("M13b", "C13", X, """        enforce_equal_len(Self::OutputSize::to_usize(), encoded.len())?;

        // Copy to a fixed-size array
        let mut arr = [0u8; 32];
        arr.copy_from_slice(encoded);
        Ok(PublicKey(""", """        // Copy to a fixed-size array
        let mut arr = [0u8; 32];
        arr.copy_from_slice(encoded);
        enforce_equal_len(Self::OutputSize::to_usize(), encoded.len())?;
        Ok(PublicKey(""", "copy before the length check")
# ---- C14
m("M14a", "C14", SS, "    let ciphertext = aead_ctx.seal(plaintext, aad)?;", "    let ciphertext = aead_ctx.seal(plaintext, if aad.is_empty() { info } else { aad })?;", "single_shot_seal passes info as aad when aad is empty")
m("M14b", "C14", SS, "    let mut aead_ctx = setup_receiver::<A, Kdf, Kem>(mode, sk_recip, encapped_key, info)?;\n    // Decrypt\n    aead_ctx.open_in_place_detached(ciphertext, aad, tag)", "    let mut aead_ctx = setup_receiver::<A, Kdf, Kem>(mode, sk_recip, encapped_key, info).map_err(|_| HpkeError::OpenError)?;\n    // Decrypt\n    aead_ctx.open_in_place_detached(ciphertext, aad, tag)", "single_shot_open_in_place maps DecapError to OpenError")
# ---- C15
m("M15a", "C15", O, "if (psk.is_empty() && psk_id.is_empty()) || (!psk.is_empty() && !psk_id.is_empty()) {", "if psk.is_empty() || !psk_id.is_empty() {", "lone psk_id accepted")
m("M15b", "C15", O, None, None, "psk and psk_id swapped on both sides")  # special
# ---- C16
m("M16a", "C16", A, "impl<A: Aead> Drop for AeadNonce<A> {\n    fn drop(&mut self) {\n        self.0.zeroize();", "impl<A: Aead> Drop for AeadNonce<A> {\n    fn drop(&mut self) {", "AeadNonce zeroize removed")
m("M16b", "C16", A, "impl<A: Aead> Drop for AeadKey<A> {\n    fn drop(&mut self) {\n        self.0.zeroize();", "impl<A: Aead> Drop for AeadKey<A> {\n    fn drop(&mut self) {", "AeadKey zeroize removed")
m("M16c", "C16", S, "impl<K: KdfTrait> Drop for ExporterSecret<K> {\n    fn drop(&mut self) {\n        self.0.zeroize();", "impl<K: KdfTrait> Drop for ExporterSecret<K> {\n    fn drop(&mut self) {", "ExporterSecret zeroize removed")
m("M16d", "C16", KM, "    fn zeroize(&mut self) {\n        self.0.zeroize()\n    }", "    fn zeroize(&mut self) {\n        let n = self.0.len() / 2; self.0[..n].zeroize()\n    }", "SharedSecret only half wiped")
m("M16e", "C16", S, None, None, "whole Drop impl of ExporterSecret deleted")  # special

def special(mid, src):
    if mid == "M08a":
        # drop the static-static DH term on both sides
        src = src.replace("""                        &kex_res_eph.to_bytes(),
                        &kex_res_identity.to_bytes()
                    );""", """                        &kex_res_eph.to_bytes(),
                        &kex_res_eph.to_bytes()
                    );
                    let _ = &kex_res_identity;""")
        src = src.replace("""                            &kex_res_eph.to_bytes(),
                            &kex_res_identity.to_bytes()
                        );""", """                            &kex_res_eph.to_bytes(),
                            &kex_res_eph.to_bytes()
                        );
                        let _ = &kex_res_identity;""")
        return src
    if mid == "M08b":
        src = src.replace("""                        &pk_recip.to_bytes(),
                        &pk_sender_id.to_bytes()
                    );""", """                        &pk_recip.to_bytes(),
                        &pk_recip.to_bytes()
                    );""")
        src = src.replace("""                            &pk_recip.to_bytes(),
                            &pk_sender_id.to_bytes()
                        );""", """                            &pk_recip.to_bytes(),
                            &pk_recip.to_bytes()
                        );""")
        return src
    if mid == "M15b":
        src = src.replace("OpModeR::Psk(bundle) => bundle.psk,\n            OpModeR::AuthPsk(_, bundle) => bundle.psk,", "OpModeR::Psk(bundle) => bundle.psk_id,\n            OpModeR::AuthPsk(_, bundle) => bundle.psk_id,")
        src = src.replace("OpModeR::Psk(p) => p.psk_id,\n            OpModeR::AuthPsk(_, p) => p.psk_id,", "OpModeR::Psk(p) => p.psk,\n            OpModeR::AuthPsk(_, p) => p.psk,")
        src = src.replace("OpModeS::Psk(bundle) => bundle.psk,\n            OpModeS::AuthPsk(_, bundle) => bundle.psk,", "OpModeS::Psk(bundle) => bundle.psk_id,\n            OpModeS::AuthPsk(_, bundle) => bundle.psk_id,")
        src = src.replace("OpModeS::Psk(p) => p.psk_id,\n            OpModeS::AuthPsk(_, p) => p.psk_id,", "OpModeS::Psk(p) => p.psk,\n            OpModeS::AuthPsk(_, p) => p.psk,")
        return src
    if mid == "M16e":
        i = src.index("// Zero exporter secrets on drop")
        j = src.index("// RFC 9180 §5.1\n// def KeySchedule")
        return src[:i] + src[j:]
    raise KeyError(mid)

def sh(cmd, cwd=None, timeout=3600):
    p = subprocess.run(cmd, shell=True, cwd=cwd, capture_output=True, text=True, timeout=timeout)
    return p.returncode, p.stdout + p.stderr

def prepare():
    os.makedirs(ROOT, exist_ok=True)
    sh(f"rsync -a --delete --exclude target /repo/ {REPO}/")
    sh(f"rsync -a --delete --exclude target /verif/sim/ {SIM}/")
    for f in [SIM + "/Cargo.toml", SIM + "/dyn/Cargo.toml"] + [f"{SIM}/dyn-{k}/Cargo.toml" for k in ("x25519", "p256", "p384", "p521")]:
        s = open(f).read().replace('path = "/repo"', f'path = "{REPO}"')
        open(f, "w").write(s)

def apply(mu):
    if mu["old"] is None:
        path = f"{REPO}/{mu['file']}"
        s = open(path).read()
        t = special(mu["id"], s)
        assert t != s, "special mutant did not change anything: " + mu["id"]
        open(path, "w").write(t)
        return
    path = f"{REPO}/{mu['file']}"
    s = open(path).read()
    if isinstance(mu["old"], list):
        for o, n in mu["old"]:
            if o not in s: raise RuntimeError(f"{mu['id']}: pattern not found: {o[:40]}")
            s = s.replace(o, n)
        open(path, "w").write(s)
        return
    if mu["old"] not in s:
        raise RuntimeError(f"{mu['id']}: pattern not found in {mu['file']}")
    open(path, "w").write(s.replace(mu["old"], mu["new"]))

def external():
    """--patch FILE --prop Cxx [--all-props]: run the checks against an externally supplied patch"""
    i = sys.argv.index("--patch"); patch = os.path.abspath(sys.argv[i + 1])
    prop = sys.argv[sys.argv.index("--prop") + 1]
    root = ROOT + "_ext_" + str(os.getpid())
    global REPO, SIM
    repo, sim = root + "/repo", root + "/sim"
    os.makedirs(root, exist_ok=True)
    sh(f"rsync -a --delete --exclude target /repo/ {repo}/")
    sh(f"rsync -a --delete --exclude target /verif/sim/ {sim}/")
    for f in [sim + "/Cargo.toml", sim + "/dyn/Cargo.toml"] + [f"{sim}/dyn-{k}/Cargo.toml" for k in ("x25519", "p256", "p384", "p521")]:
        t = open(f).read().replace('path = "/repo"', f'path = "{repo}"'); open(f, "w").write(t)
    rc, out = sh(f"git apply {patch}", cwd=repo)
    if rc != 0: print("patch does not apply:", out); shutil.rmtree(root, ignore_errors=True); return 2
    rc, out = sh("cargo nextest run --workspace --no-fail-fast --offline 2>&1 | tail -5", cwd=repo)
    print("baseline:", " ".join(out.split()[-12:]))
    rc, out = sh("cargo build --release --offline 2>&1 | tail -20", cwd=sim)
    if rc != 0: print("SIM-BUILD-FAILED\n" + out); shutil.rmtree(root, ignore_errors=True); return 2
    props = ["C%02d" % i for i in range(1, 17)] + ["C18"] if "--all-props" in sys.argv else [prop]
    tier = "thorough" if "--thorough" in sys.argv else "quick"
    plain_built = False
    for pr in props:
        t0 = time.time()
        rc, out = sh(f"{sim}/target/release/hpke-sim run {pr} --tier {tier} --evidence {root}/ev.json --replay-dir {root}/rp --known /nonexistent", cwd=sim)
        if rc == 0 and "--no-plain" not in sys.argv:
            # second build profile (ordinary release build of hpke), as ./check does
            if not plain_built:
                brc, bout = sh(f"CARGO_TARGET_DIR={sim}/target-plain cargo build --profile plain --offline 2>&1 | tail -5", cwd=sim)
                plain_built = True
            rc2, out2 = sh(f"{sim}/target-plain/plain/hpke-sim run {pr} --tier {tier} --scale 0.34 --profile-tag plain --evidence {root}/ev2.json --replay-dir {root}/rp --known /nonexistent", cwd=sim)
            if rc2 == 1:
                mv = re.search(r"VIOLATION property=(\S+) replay=(\S+)", out2)
                rrc, rout = sh(f"{sim}/target-plain/plain/hpke-sim replay {mv.group(2)}", cwd=sim)
                body = out2[out2.index("violation in run"):] if "violation in run" in out2 else out2
                print(f"== {pr}: CAUGHT under the plain build profile (replay {'ok' if rrc == 1 else 'FAILED'}) {time.time() - t0:.0f}s\n" + body[:1800])
                continue
        if rc == 1:
            mv = re.search(r"VIOLATION property=(\S+) replay=(\S+)", out)
            rrc, rout = sh(f"{sim}/target/release/hpke-sim replay {mv.group(2)}", cwd=sim)
            body = out[out.index("violation in run"):] if "violation in run" in out else out
            print(f"== {pr}: CAUGHT (replay {'ok' if rrc == 1 else 'FAILED'}) {time.time() - t0:.0f}s\n" + body[:1800])
        else:
            print(f"== {pr}: exit {rc} {time.time() - t0:.0f}s " + " ".join(out.split()[-14:]))
    if "--keep" not in sys.argv: shutil.rmtree(root, ignore_errors=True)
    return 0

def main():
    if "--patch" in sys.argv:
        sys.exit(external())
    args = [a for a in sys.argv[1:] if not a.startswith("--")]
    if "--list" in sys.argv:
        for mu in M: print(mu["id"], mu["prop"], mu["note"])
        return
    all_props = "--all-props" in sys.argv
    prepare()
    os.makedirs("/verif/mutants", exist_ok=True)
    results = []
    for mu in M:
        if args and mu["id"] not in args: continue
        sh("git checkout -q -- . && git clean -fdq src", cwd=REPO)
        t0 = time.time()
        try:
            apply(mu)
        except Exception as e:
            print(mu["id"], "APPLY-FAILED", e); results.append((mu, "apply-failed", "", 0)); continue
        rc, diff = sh("git diff", cwd=REPO)
        open(f"/verif/mutants/{mu['id']}.patch", "w").write(diff)
        rc, out = sh("cargo nextest run --workspace --no-fail-fast --offline 2>&1 | tail -5", cwd=REPO)
        mt = re.search(r"(\d+) tests run: (\d+) passed", out)
        base_ok = bool(mt and mt.group(1) == "35" and mt.group(2) == "35")
        rc, out = sh("cargo build --release --offline 2>&1 | tail -20", cwd=SIM)
        if rc != 0 or "error" in out:
            print(mu["id"], "SIM-BUILD-FAILED"); print(out); results.append((mu, "sim-build-failed", "", 0)); continue
        props = [mu["prop"]]
        if all_props:
            props = ["C%02d" % i for i in range(1, 17)] + ["C18"]
        caught = []
        status = "MISSED"
        inv = ""
        for pr in props:
            scale = " --scale 0.2" if (all_props and pr != mu["prop"]) else ""
            rc, out = sh(f"{SIM}/target/release/hpke-sim run {pr}{scale} --evidence {ROOT}/ev.json --replay-dir {ROOT}/rp --known /nonexistent", cwd=SIM)
            if rc == 1:
                mv = re.search(r"VIOLATION property=(\S+) replay=(\S+)", out)
                iv = re.search(r"violation in run \d+ \(seed \S+\): (\S+)", out)
                rrc, rout = sh(f"{SIM}/target/release/hpke-sim replay {mv.group(2)}", cwd=SIM)
                rep = "replay-ok" if rrc == 1 else "REPLAY-FAILED"
                caught.append(f"{pr}:{iv.group(1) if iv else '?'}:{rep}")
                if pr == mu["prop"]:
                    status = "CAUGHT" if rrc == 1 else "CAUGHT-BUT-REPLAY-FAILED"
                    inv = iv.group(1) if iv else "?"
            elif rc != 0:
                caught.append(f"{pr}:exit{rc}")
                if pr == mu["prop"]: status = f"HARNESS-ERROR({rc})"; print(out[-2000:])
        dt = time.time() - t0
        print(f"{mu['id']:6} {mu['prop']} baseline={'pass' if base_ok else 'FAIL'} {status} {inv} [{' '.join(caught)}] {dt:.0f}s  -- {mu['note']}", flush=True)
        results.append((mu, status, inv, base_ok))
    sh("git checkout -q -- . && git clean -fdq src", cwd=REPO)
    if "--keep" not in sys.argv:
        shutil.rmtree(ROOT, ignore_errors=True)
    with open("/verif/mutants/RESULTS.md", "a") as f:
        f.write(f"\n## run {time.strftime('%Y-%m-%d %H:%M:%S')} ({'all properties' if all_props else 'named property only'})\n\n| id | property | change | baseline 35 tests | result | invariant |\n|---|---|---|---|---|---|\n")
        for mu, st, inv, ok in results:
            f.write(f"| {mu['id']} | {mu['prop']} | {mu['note']} | {'pass' if ok else 'FAIL'} | {st} | {inv} |\n")

if __name__ == "__main__":
    main()
