#!/bin/bash
# confirm_seeded.sh <worktree> <id> <property> [cargo feature args]: confirm a sub-agent's seeded change
# (suite passes with change, demo fails with / passes without) and file it under /verif/seeded/<id>/
wt=$1; id=$2; prop=$3; shift 3; feats="$*"
export CARGO_TARGET_DIR=$wt/target CARGO_NET_OFFLINE=true
cd $wt || exit 2
git checkout -q -- src 2>/dev/null
cp _seeded/seeded_demo.rs tests/seeded_demo.rs 2>/dev/null
git apply _seeded/patch.diff || { echo "patch does not apply"; exit 2; }
suite=$(cargo test --workspace --no-fail-fast --offline --lib 2>&1 | grep "test result" | head -1)
RUSTFLAGS="--cfg hpke_verif" cargo test --offline --test seeded_demo $feats > /tmp/demo_with_$id.log 2>&1; with_rc=$?
git apply -R _seeded/patch.diff
RUSTFLAGS="--cfg hpke_verif" cargo test --offline --test seeded_demo $feats > /tmp/demo_without_$id.log 2>&1; without_rc=$?
echo "$id: suite with change: $suite | demo with change rc=$with_rc ($(grep 'test result' /tmp/demo_with_$id.log | tail -1)) | demo without change rc=$without_rc ($(grep 'test result' /tmp/demo_without_$id.log | tail -1))"
if [ $with_rc -ne 0 ] && [ $without_rc -eq 0 ] && echo "$suite" | grep -q "ok. 35 passed"; then
  mkdir -p /verif/seeded/$id
  cp _seeded/patch.diff /verif/seeded/$id/patch.diff
  cp _seeded/seeded_demo.rs /verif/seeded/$id/seeded_demo.rs
  cp _seeded/NOTES.md /verif/seeded/$id/NOTES.md
  echo "CONFIRMED $id"
else
  echo "NOT-CONFIRMED $id"
fi
rm -rf $wt/target
