#!/usr/bin/env python3
"""Generates /verif/MANIFEST.json (kept in one place so the per-property texts stay consistent)."""
import json, subprocess

HOOK_COMMITS = subprocess.run(
    ["git", "-C", "/repo", "log", "--format=%H %s"], capture_output=True, text=True
).stdout.splitlines()
hook_commits = [l.split()[0] for l in HOOK_COMMITS if "verif hook" in l]

TECH = "deterministic simulation with fault injection: seeded search over event/fault histories, "
P = {
 "C01": ("exploration", "2.2-2.4, 3/C01",
   TECH + "fault-free profile of the session world checked against the ideal channel model",
   "Seeded worlds over all 36 sealing suites x 4 modes (round-robin, then random): key provisioning, sender setup with a scripted RNG, delayed receiver setup, in-order delivery of every sealed message through the four seal/open pairings and the single-shot forms, histories crossing 2^8 (2^16 thorough). Oracle: ideal channel (i-th delivery returns i-th plaintext, |ct|=|pt|+Nt, in-place length unchanged). As built (DESIGN 3, rounds 8-14): one run in eight hops between OS threads; arguments with equal contents alias one buffer; aad and in-place buffer are adjacent regions of one allocation; special-but-legal keys (searched special DH results, X25519 scalars special after clamping); one message of 2^32+17 bytes and > 4 GiB through one context per batch; a third build profile (/verif/dbgprobe: fixed long-input transcript with hpke unoptimised vs release, same digest). Sampled inputs, exhaustive suites x modes; evidence, not proof.",
   "Trusts the RustCrypto primitives; no reference to RFC values (that is C02)."),
 "C02": ("exploration", "2.4, 3/C02",
   TECH + "cross-implementation sessions real<->refhpke through the RNG seam, op-by-op byte comparison (refinement against an executable reference model)",
   "Three pairings per world (real S -> model R, model S -> real R, real S -> real R) over 48 suites x 4 modes; enc, every ciphertext and every export compared byte-for-byte with refhpke, an independent RFC 9180 implementation on bare sha2 (own HMAC/HKDF), anchored on RFC 9180 A.1.1 incl. seq 1/2 ciphertexts and three exports. RNG draw log must be exactly one fill of Nsk bytes.",
   "refhpke is anchored on one appendix vector; other modes/KEMs are anchored by two independently written implementations agreeing. Curve arithmetic and AEAD/SHA-2 primitives are shared and trusted."),
 "C03": ("exploration", "3/C03",
   TECH + "KEM-level probes inside the simulated worlds compared with refhpke (reference model), scripted RNG seam",
   "derive_keypair over ikm lengths 0..200, 1 KiB, 64 KiB and byte classes; gen_keypair(rng) == derive(first Nsk bytes) with exactly Nsk bytes drawn; sk_to_pk; Kem::encap/decap plain and authenticated vs RFC 9180 4.1 (shared secret and enc). The P-256 DeriveKeyPair retry branch is reached through three pre-computed inputs. Grade L in DESIGN: a pure function; the simulator contributes seeded generation, the RNG seam, the model and replay.",
   "P-384/P-521 retry branch unreachable (probability < 2^-190). Curve arithmetic trusted."),
 "C04": ("exploration", "3/C04",
   TECH + "sender histories with logical-clock jumps, injected AEAD failures and post-exhaustion calls; nonce observed at the AEAD seam (shim)",
   "Histories of seal / seal_in_place with forward jumps of the message counter to every carry boundary 2^8k-2, 2^8k-1, 2^32-1, 2^63, 2^64-3..2^64-1 (hook), AEAD-primitive failures injected through a same-id shim implementing hpke::aead::Aead, and continued calls after exhaustion. Oracle: self-calibrated nonce law (nonce = n0 xor BE64(i) in the last 8 bytes), pairwise-distinct nonces, ciphertext == AEAD(key seen at the seam, expected nonce, aad, pt), counter law via hook (+1 on success, unchanged on SealError, latch at 2^64-1, MessageLimitReached forever with buffer untouched and no AEAD call). Hook-free stretches cross 2^8 and 2^16.",
   "verif_set_seq writes the counter directly; positions between boundaries are sampled."),
 "C05": ("exploration", "3/C05",
   TECH + "adversarial wire (replay, skip, reorder, tamper, truncate, garbage, cross-session, restart, clock jumps) between real sender and real receiver, checked against the ideal channel model after every delivery",
   "1-3 sessions per world, scheduler interleaves seals, deliveries (next / replay k back / future k ahead / indexed), byte faults, cross-session misdelivery, receiver restarts, symmetric and asymmetric counter jumps to every boundary incl. 2^64-1 and past the latch, both opening APIs plus single-shot. Oracle per delivery: Ok(pt) iff the record was sealed under the same key identity at exactly the receiver's position with identical bytes and aad, else OpenError / MessageLimitReached; position law via hook (+1 on success, unchanged on failure); buffer untouched on MessageLimitReached; bounded liveness in a fault-free heal phase.",
   "2^-128 forgeries ignored. One genuine defect found and fixed (known_findings.json)."),
 "C06": ("fault_enumeration", "3/C06",
   TECH + "per sealed record, enumeration of every single-bit flip, truncation, extension and splice fault on the wire, receiver re-pinned before each variant",
   "For each sampled record (3 AEADs, lengths from the boundary table, positions incl. jumped ones): every single-bit flip of ciphertext, tag and aad (all positions up to 4096 bits quick / 65536 thorough, strided beyond), every truncation length, extensions by 1..17 bytes, insertions, aad variants, tag/aad/ct spliced from other records, through open, open_in_place_detached, single_shot_open and single_shot_open_in_place_detached. The receiver position is re-pinned with the hook before every variant. Oracle: never Ok; OpenError (IncorrectInputLength for a detached tag of the wrong size).",
   "Exhaustive over fault positions for bounded lengths; records are sampled."),
 "C07": ("exploration", "3/C07",
   TECH + "config-skew fault: receiver (or sender) set up with exactly one perturbed component, checked against the key-identity rule of the ideal channel",
   "Baseline agreeing pair plus a context with one perturbation: info/psk/psk_id (bit flip first/last/random, append 0x00, drop, prepend, empty<->non-empty, boundary shift between psk_id|info and psk|psk_id), mode swap keeping PSK data, KDF swap, AEAD swap (incl. AES-256-GCM<->ChaCha20Poly1305), other recipient key, bit-flipped / foreign / non-canonical (X25519) encapsulated key. Oracle: every ciphertext rejected with OpenError, exports (L>=16) differ; the agreeing pair keeps working.",
   "Sampled perturbations; key identity compares public keys so that equal keys are recognised."),
 "C08": ("exploration", "3/C08",
   TECH + "byzantine-peer fault: impostor sender nodes against a receiver expecting the legitimate sender",
   "Three-party worlds on 4 KEMs x {Auth, AuthPsk} (and {Psk, AuthPsk}): impostor with another identity pair, with the public half only (OpModeS::Auth((skM, pkS))), in a non-authenticated mode, with a PSK differing in one bit/byte. Oracle: impostor ciphertexts rejected, exports differ, legitimate traffic accepted.",
   "Sampled keys."),
 "C09": ("exploration", "3/C09",
   TECH + "hostile encodings injected on the wire / in the key directory, decided by an independent big-integer curve oracle",
   "Per sampled valid point of P-256/384/521: all 256 leading tag bytes, compressed/compact at natural and full length, identity forms, y+-1, every y bit flip, x bit flips, negation, twist points, points of same-field curves with another b, non-canonical x+p / y+p where they fit, every length 0..2*Npk+2; scalars 0,1,2,n-2,n-1,n,n+1,all-ones, P-521 top-bit patterns, near-n values, every length. Oracle: from_bytes ok <=> uncompressed, exact length, coordinates < p, on curve / 1<=s<n; exact error kinds and payloads; accepted values re-serialise identically. Grade L in DESIGN: a pure predicate; the simulator contributes seeded generation, the place where the bytes arrive, replay and minimisation.",
   "Catalogue exhaustive per sampled point; points sampled. FIPS 186-4 constants cross-checked against the curve crates."),
 "C10": ("fault_enumeration", "3/C10",
   TECH + "exhaustive small-order list x roles x modes injected as recipient key, encapsulated key and sender identity key",
   "The 14 small-order encodings x roles {pkR at sender, ENC at receiver, pkS at receiver incl. honest ENC with only the second DH zero} x 4 modes x 3 KDFs x random private keys x entry points {setup_sender, setup_receiver, Kem::encap, Kem::decap, single-shot forms}; negatives (random strings, bit-flipped small-order keys) must not be rejected. Oracle: independent zero-DH computation with x25519_dalek::x25519.",
   "Private keys sampled."),
 "C11": ("exploration", "3/C11",
   TECH + "export events interleaved with seal/open successes, failures, injected faults and exhaustion on both roles, compared with refhpke",
   "Exports scheduled at arbitrary points of faulted histories on both roles over 48 suites x 4 modes, every L in [255*Nh-3, 255*Nh+3], [65533, 65540], {0,1,Nh-1,Nh,Nh+1,2Nh,2^20}; export-only suites must panic on seal/open and still export afterwards. Oracle: LabeledExpand(exporter_secret,'sec',ctx,L) from refhpke, KdfOutputTooLong exactly for L>255*Nh, repeatability cache per context.",
   "Same trusted base as C02."),
 "C12": ("exploration", "3/C12",
   TECH + "codec laws at wire crossings with enumerated length faults",
   "pk, sk, enc x 4 KEMs and tag x 4 AEADs: every input length 0..2*size+2 for from_bytes and every buffer length for write_exact; values from derivation, encapsulation and real seals. Oracle: RFC 9180 sizes, IncorrectInputLength(expected, given) payloads, lossless round trip (X25519 sk up to clamping), write_exact panics iff length differs. Grade L in DESIGN.",
   "Values sampled, lengths enumerated."),
 "C13": ("exploration", "3/C13",
   TECH + "adversary byte faults at every byte-consuming entry point; a panic is a node crash caught by catch_unwind, hpke compiled with overflow-checks and debug-assertions",
   "Hostile lengths (0,1,Nt-1,Nt,Nt+1,4 KiB,64 KiB+,70 001; 1 MiB thorough) and contents at key/enc/tag deserialisation, receiver setup, open / open_in_place_detached / single-shot, info/aad/psk/psk_id/exporter context, export L up to 2^20. Oracle: value or HpkeError, never a panic; setup_sender fails only with EncapError, setup_receiver only with DecapError.",
   "Process aborts would surface as harness error; none observed."),
 "C14": ("exploration", "3/C14",
   TECH + "lock-step twins: two identically seeded contexts driven through the two interface forms under the same fault schedule",
   "single_shot_seal(_in_place_detached) vs setup_sender+seal with the same RNG script (enc, ct, draws, errors incl. small-order recipient key); single_shot_open* vs setup_receiver+open on valid and faulted traffic; allocating vs in-place twins through whole faulted histories (results, errors, hook state equal).",
   "Sampled."),
 "C15": ("exploration", "3/C15",
   TECH + "configuration step + PSK sessions compared with refhpke",
   "PskBundle::new on the four emptiness combinations at table lengths; Psk/AuthPsk sessions with psk != psk_id and Base/Auth sessions carrying junk PSK data vs the model (enc, ciphertexts, exports); lone key/identifier rejected before a context exists. Grade L in DESIGN.",
   "Same trusted base as C02."),
 "C16": ("exploration", "3/C16",
   TECH + "teardown events at arbitrary points of faulted histories; memory of the dropped slot scanned for the model's secrets; drop ledger hook",
   "Contexts torn down fresh, after successes, failures, injected SealError, exhaustion, export-only panics, failed second DH; the value is moved into a MaybeUninit slot, scanned for refhpke's base_nonce and exporter_secret (must be present before, gone after drop_in_place); As built: dropped values sit at byte offsets 0..7; a heap watch (the simulator's allocator inspects, then wipes, every block freed while armed around drop / export / seal / open) extends the rule to heap memory; sessions whose base nonce / key / exporter secret / shared secret have searched special shapes (zero bytes at an end, at every 8th position). KEM shared secrets likewise; ledger: every dropped AeadKey/AeadNonce/ExporterSecret/SharedSecret buffer is all-zero, the temporary AEAD key and the shared secret are dropped before setup returns.",
   "Cannot see copies left in dead stack frames/registers or the cipher's own round keys (outside the property). Runs single-threaded because the ledger is process-global."),
}

checks = []
for pid in sorted(P):
    level, ref, tech, text, note = P[pid]
    checks.append({
        "property_id": pid,
        "quick_cmd": f"./check {pid} quick",
        "thorough_cmd": f"./check {pid} thorough",
        "evidence_file": f"/verif/evidence/{pid}.json",
        "replay_cmd_template": "./check --replay {path}",
        "engine": "hpke-sim",
        "level_claimed": {"category": level, "text": text, "design_ref": "DESIGN.md " + ref},
        "level_note": note,
        "technique": tech,
    })

extra = json.load(open("/verif/tools/extra_checks.json")) if __import__("os").path.exists("/verif/tools/extra_checks.json") else {"checks": [], "not_applicable": []}
checks += extra["checks"]
checks.sort(key=lambda c: c["property_id"])

manifest = {
    "version": 1,
    "setup_cmd": "./setup.sh",
    "hooks": {
        "guard": "--cfg hpke_verif",
        "enable": "RUSTFLAGS='--cfg hpke_verif' via /verif/sim/.cargo/config.toml ([build] rustflags); the harness depends on /repo by path",
        "baseline_off_cmd": "cd /repo && cargo test --workspace --no-fail-fast --offline",
        "source_commits": hook_commits,
        "add_only": True,
    },
    "engines": [
        {"name": "hpke-sim", "path": "/verif/sim", "serves_properties": sorted(P),
         "kind_free_text": "seeded discrete-event simulator (Rust) running the real hpke crate against an adversarial wire, scripted RNG, fault-injecting AEAD shim, logical-clock jumps and lifecycle events; oracles: ideal channel, refhpke, big-integer curve oracle; delta-debugging minimiser; explicit event-list replay files"},
    ] + extra.get("engines", []),
    "checks": checks,
    "not_applicable": extra["not_applicable"],
    "notes": "C17 (c17/run.py) compares a seeded transcript per enabled KEM across feature subsets and guard on/off: positive traffic, NEG / NEG-ALLOC (rejections), RNG-STREAM (bytes drawn by consecutive operations), WIPE (in-place and boxed drops under an interposed free(), probe built at opt-level 3), export-only panics, zero-x edge vectors; plus API presence, per-subset unit tests, example/bench builds, guard-off baseline. C18 (c18/run.py): compile-time Send/Sync assertions, token-passing simulation with preemption at the RNG / AEAD seams (OnNested) and a process-history reference, a 64 KiB small-stack probe, uncontrolled concurrent exports/sessions, Miri (thorough). All checks rebuild the simulator from /repo's working tree (path dependency). exit 0 held / 1 VIOLATION / 2 harness error. VERIF_SEED selects the master seed (default 1). Known findings: /verif/known_findings.json.",
}
json.dump(manifest, open("/verif/MANIFEST.json", "w"), indent=1)
print("wrote MANIFEST.json with", len(checks), "checks")
