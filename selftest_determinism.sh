#!/bin/bash
# Determinism proof: per-run log hashes of N seeds, executed with 1 and with 16 workers in separate
# processes, twice each, must agree (digest = hash over the per-run signatures in run-index order).
set -u
BIN=/verif/sim/target/release/hpke-sim
RUNS=${1:-2000}
fail=0
for p in C01 C02 C03 C04 C05 C06 C07 C08 C09 C10 C11 C12 C13 C14 C15 C16 C18; do
  r=$RUNS
  case $p in C06|C16|C18) r=$((RUNS/10));; esac
  a=$($BIN digest $p --runs $r --workers 16 --seed 7)
  b=$($BIN digest $p --runs $r --workers 1 --seed 7)
  c=$($BIN digest $p --runs $r --workers 16 --seed 7)
  d=$($BIN digest $p --runs $r --workers 5 --seed 7)
  if [ "$a" != "$b" ] || [ "$a" != "$c" ] || [ "$a" != "$d" ]; then echo "NONDETERMINISTIC $p: $a / $b / $c / $d"; fail=1; else echo "deterministic $a ($r runs x {16,1,16,5} workers)"; fi
done
exit $((fail*2))
